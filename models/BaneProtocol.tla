---- MODULE BaneProtocol ----
(* Synchronisation protocol of AegeanTools.BANE.filter_mc_sharemem:                                     *)
(*   a task queue served by C pool workers (a blocked task keeps its worker: maxtasksperchild = 1),    *)
(*   the CPython threading.Barrier state machine at lock-atomic granularity (multiprocessing.Barrier   *)
(*   inherits it), one straight-line program per stripe over the operations work / wait / reset0,      *)
(*   one optional injected fault, and the parent's map_async(...).get(), which resolves only when      *)
(*   every task has finished or failed.                                                                *)
(* Prog, Faults and FailAction are not hand written : they are EXTRACTED from the running code by      *)
(* checks/c07.py and substituted through a generated MC.tla.                                           *)
EXTENDS Integers, Sequences, FiniteSets
CONSTANTS S,            \* realised stripes = barrier parties = tasks
          C,            \* pool processes
          Prog,         \* sequence of ops: "work","wait","reset0" (reset by the party whose wait() returned 0),"reset"
          Faults,       \* set of <<stripe, pc>> single faults to explore; <<0, 0>> = no fault
          FailAction    \* what the worker wrapper does to the barrier on an exception: "none", "abort" or "reset"
VARIABLES pc, st, idx, bstate, bcount, busy, nextTask, parent,
          FaultS, FaultPc   \* the fault of this behaviour: chosen in Init, never changed
vars == <<pc, st, idx, bstate, bcount, busy, nextTask, parent, FaultS, FaultPc>>
fv == <<FaultS, FaultPc>>
Stripes == 1..S
PL == Len(Prog)

Init == /\ pc = [s \in Stripes |-> 0]
        /\ st = [s \in Stripes |-> "queued"]
        /\ idx = [s \in Stripes |-> 99]
        /\ bstate = 0 /\ bcount = 0 /\ busy = 0 /\ nextTask = 1 /\ parent = "pending"
        /\ \E f \in Faults : FaultS = f[1] /\ FaultPc = f[2]

Start(s) ==
    /\ st[s] = "queued" /\ s = nextTask /\ busy < C
    /\ st' = [st EXCEPT ![s] = "run"] /\ pc' = [pc EXCEPT ![s] = 1]
    /\ busy' = busy + 1 /\ nextTask' = nextTask + 1
    /\ UNCHANGED <<idx, bstate, bcount, parent, FaultS, FaultPc>>

\* task s ends with an exception (fault or BrokenBarrierError).  If the worker wrapper touches the barrier on failure
\* (abort() or reset()) that is a separate lock acquisition (action Abort) before the task is reported as failed.
FailEffect(s, bs, bc) ==
    /\ st' = [st EXCEPT ![s] = IF FailAction # "none" THEN "aborting" ELSE "failed"]
    /\ busy' = IF FailAction # "none" THEN busy ELSE busy - 1
    /\ bstate' = bs
    /\ bcount' = bc

Abort(s) ==
    /\ st[s] = "aborting"
    /\ st' = [st EXCEPT ![s] = "failed"] /\ busy' = busy - 1
    /\ bstate' = IF FailAction = "abort" THEN -2
                 ELSE (IF bcount > 0 THEN (IF bstate \in {0, -2} THEN -1 ELSE bstate) ELSE 0)   \* reset()
    /\ UNCHANGED <<pc, idx, bcount, nextTask, parent, FaultS, FaultPc>>

Work(s) ==
    /\ st[s] = "run" /\ pc[s] \in 1..PL /\ Prog[pc[s]] = "work"
    /\ IF FaultS = s /\ FaultPc = pc[s]
         THEN /\ FailEffect(s, bstate, bcount)
              /\ UNCHANGED <<pc, idx, nextTask, parent, FaultS, FaultPc>>
         ELSE /\ pc' = [pc EXCEPT ![s] = pc[s] + 1]
              /\ UNCHANGED <<st, idx, bstate, bcount, busy, nextTask, parent, FaultS, FaultPc>>

\* exit(): called with count already decremented
ExitState(bs, bc) == IF bc = 0 /\ bs \in {-1, 1} THEN 0 ELSE bs

\* body of wait() after _enter succeeded (state = 0), executed atomically under the lock
EnterBody(s) ==
    LET i == bcount IN
    IF i + 1 = S
      THEN \* _release: state=1, notify; finally count -= 1 (back to i); _exit
           /\ idx' = [idx EXCEPT ![s] = i] /\ bcount' = i /\ bstate' = ExitState(1, i)
           /\ pc' = [pc EXCEPT ![s] = pc[s] + 1] /\ st' = [st EXCEPT ![s] = "run"]
           /\ UNCHANGED <<busy, nextTask, parent, FaultS, FaultPc>>
      ELSE /\ idx' = [idx EXCEPT ![s] = i] /\ bcount' = i + 1 /\ st' = [st EXCEPT ![s] = "bwait"]
           /\ UNCHANGED <<pc, bstate, busy, nextTask, parent, FaultS, FaultPc>>

AtWait(s) == pc[s] \in 1..PL /\ Prog[pc[s]] = "wait"

WaitSleep(s) ==
    /\ st[s] = "run" /\ AtWait(s) /\ bstate \in {-1, 1}
    /\ st' = [st EXCEPT ![s] = "benter"]
    /\ UNCHANGED <<pc, idx, bstate, bcount, busy, nextTask, parent, FaultS, FaultPc>>

WaitBroken(s) ==
    /\ st[s] \in {"run", "benter"} /\ AtWait(s) /\ bstate = -2
    /\ FailEffect(s, bstate, bcount)
    /\ UNCHANGED <<pc, idx, nextTask, parent, FaultS, FaultPc>>

WaitEnter(s) ==
    /\ st[s] \in {"run", "benter"} /\ AtWait(s) /\ bstate = 0
    /\ EnterBody(s)

WakeWait(s) ==
    /\ st[s] = "bwait" /\ bstate # 0
    /\ IF bstate < 0
         THEN /\ FailEffect(s, ExitState(bstate, bcount - 1), bcount - 1)
              /\ UNCHANGED <<pc, idx, nextTask, parent, FaultS, FaultPc>>
         ELSE /\ bcount' = bcount - 1 /\ bstate' = ExitState(bstate, bcount - 1)
              /\ st' = [st EXCEPT ![s] = "run"] /\ pc' = [pc EXCEPT ![s] = pc[s] + 1]
              /\ UNCHANGED <<idx, busy, nextTask, parent, FaultS, FaultPc>>

Reset0(s) ==
    /\ st[s] = "run" /\ pc[s] \in 1..PL /\ Prog[pc[s]] \in {"reset0", "reset"}
    /\ pc' = [pc EXCEPT ![s] = pc[s] + 1]
    /\ bstate' = IF idx[s] = 0 \/ Prog[pc[s]] = "reset"
                   THEN (IF bcount > 0 THEN (IF bstate \in {0, -2} THEN -1 ELSE bstate) ELSE 0)
                   ELSE bstate
    /\ UNCHANGED <<st, idx, bcount, busy, nextTask, parent, FaultS, FaultPc>>

Finish(s) ==
    /\ st[s] = "run" /\ pc[s] = PL + 1
    /\ st' = [st EXCEPT ![s] = "done"] /\ busy' = busy - 1
    /\ UNCHANGED <<pc, idx, bstate, bcount, nextTask, parent, FaultS, FaultPc>>

ParentGet ==
    /\ parent = "pending" /\ \A s \in Stripes : st[s] \in {"done", "failed"}
    /\ parent' = IF \E s \in Stripes : st[s] = "failed" THEN "raised" ELSE "ok"
    /\ UNCHANGED <<pc, st, idx, bstate, bcount, busy, nextTask, FaultS, FaultPc>>

Terminated == parent # "pending" /\ UNCHANGED vars

Next == \/ \E s \in Stripes : Start(s) \/ Work(s) \/ WaitSleep(s) \/ WaitBroken(s) \/ WaitEnter(s) \/ WakeWait(s) \/ Reset0(s) \/ Finish(s) \/ Abort(s)
        \/ ParentGet \/ Terminated
Spec == Init /\ [][Next]_vars

NoBrokenWithoutFault == (FaultS = 0) => \A s \in Stripes : st[s] # "failed"
FaultIsReported == (parent # "pending" /\ FaultS # 0) => parent = "raised"
TypeOK == bcount \in 0..S /\ bstate \in {0, 1, -1, -2} /\ busy \in 0..C
====
