---- MODULE BaneCounter ----
(* Counter abstraction of BaneProtocol for the case C = S (one pool worker per stripe, which is what the code     *)
(* realises) and programs over "work" / "wait" only.  All stripes run the same program and the barrier only counts, *)
(* so the stripes that never fault are interchangeable: instead of one program counter per stripe the state holds,  *)
(* for every program location, HOW MANY stripes are there.  The one stripe that may fault is tracked individually.  *)
(* The abstraction is validated against BaneProtocol by comparing, for S <= 4, the set of reachable states of this  *)
(* model with the projection (stripe identities forgotten) of the reachable states of BaneProtocol (checks/c07.py). *)
EXTENDS Integers, Sequences, FiniteSets
CONSTANTS S,            \* stripes = barrier parties = pool workers
          Prog,         \* program of the tracked stripe: sequence over "work", "wait"
          ProgC,        \* program of the counted stripes: Prog with every run of "work" steps merged into one step
                        \* (work steps of stripes that never fault touch no shared synchronisation state)
          FaultPcs,     \* set of program locations at which the tracked stripe may fault; 0 = it never faults
          FailAction    \* "none", "abort" or "reset"
VARIABLES q, at, bw, be, ab, done, failed,      \* counted stripes: queued, run@pc, in _wait@pc, in _enter@pc, aborting, ...
          tst, tpc,                              \* the tracked stripe: status and program counter
          bstate, bcount, parent, FaultPc
vars == <<q, at, bw, be, ab, done, failed, tst, tpc, bstate, bcount, parent, FaultPc>>
PL == Len(Prog)
PLC == Len(ProgC)
Locs == 1..(PLC + 1)
Zero == [k \in Locs |-> 0]

Init == /\ q = S - 1 /\ at = Zero /\ bw = Zero /\ be = Zero /\ ab = 0 /\ done = 0 /\ failed = 0
        /\ tst = "queued" /\ tpc = 0
        /\ bstate = 0 /\ bcount = 0 /\ parent = "pending"
        /\ FaultPc \in FaultPcs

ExitState(bs, bc) == IF bc = 0 /\ bs \in {-1, 1} THEN 0 ELSE bs
ResetState == IF bcount > 0 THEN (IF bstate \in {0, -2} THEN -1 ELSE bstate) ELSE 0
Inc(f, k) == [f EXCEPT ![k] = f[k] + 1]
Dec(f, k) == [f EXCEPT ![k] = f[k] - 1]
AtWait(k) == k \in 1..PLC /\ ProgC[k] = "wait"
TAtWait(k) == k \in 1..PL /\ Prog[k] = "wait"

\* ---------------------------------------------------------------- counted stripes
CStart == /\ q > 0 /\ q' = q - 1 /\ at' = Inc(at, 1)
          /\ UNCHANGED <<bw, be, ab, done, failed, tst, tpc, bstate, bcount, parent, FaultPc>>

CWork(k) == /\ k \in 1..PLC /\ ProgC[k] = "work" /\ at[k] > 0
            /\ at' = Inc(Dec(at, k), k + 1)
            /\ UNCHANGED <<q, bw, be, ab, done, failed, tst, tpc, bstate, bcount, parent, FaultPc>>

\* a counted stripe leaves location `from[k]` with an exception
CFail(bs, bc) == /\ IF FailAction # "none" THEN ab' = ab + 1 /\ failed' = failed ELSE failed' = failed + 1 /\ ab' = ab
                 /\ bstate' = bs /\ bcount' = bc

CWaitSleep(k) == /\ AtWait(k) /\ at[k] > 0 /\ bstate \in {-1, 1}
                 /\ at' = Dec(at, k) /\ be' = Inc(be, k)
                 /\ UNCHANGED <<q, bw, ab, done, failed, tst, tpc, bstate, bcount, parent, FaultPc>>

CWaitBrokenRun(k) == /\ AtWait(k) /\ at[k] > 0 /\ bstate = -2
                     /\ at' = Dec(at, k) /\ CFail(bstate, bcount)
                     /\ UNCHANGED <<q, bw, be, done, tst, tpc, parent, FaultPc>>

CWaitBrokenEnter(k) == /\ AtWait(k) /\ be[k] > 0 /\ bstate = -2
                       /\ be' = Dec(be, k) /\ CFail(bstate, bcount)
                       /\ UNCHANGED <<q, at, bw, done, tst, tpc, parent, FaultPc>>

\* body of wait() once _enter succeeded; src is "run" or "enter"
CEnter(k, src) ==
    /\ AtWait(k) /\ bstate = 0 /\ (IF src = "run" THEN at[k] > 0 ELSE be[k] > 0)
    /\ LET i == bcount
           at1 == IF src = "run" THEN Dec(at, k) ELSE at
           be1 == IF src = "enter" THEN Dec(be, k) ELSE be
       IN IF i + 1 = S
            THEN /\ bcount' = i /\ bstate' = ExitState(1, i) /\ at' = Inc(at1, k + 1) /\ be' = be1 /\ bw' = bw
            ELSE /\ bcount' = i + 1 /\ bstate' = bstate /\ bw' = Inc(bw, k) /\ at' = at1 /\ be' = be1
    /\ UNCHANGED <<q, ab, done, failed, tst, tpc, parent, FaultPc>>

CWake(k) == /\ AtWait(k) /\ bw[k] > 0 /\ bstate # 0
            /\ IF bstate < 0
                 THEN /\ bw' = Dec(bw, k) /\ CFail(ExitState(bstate, bcount - 1), bcount - 1)
                      /\ UNCHANGED <<q, at, be, done, tst, tpc, parent, FaultPc>>
                 ELSE /\ bw' = Dec(bw, k) /\ at' = Inc(at, k + 1)
                      /\ bcount' = bcount - 1 /\ bstate' = ExitState(bstate, bcount - 1)
                      /\ UNCHANGED <<q, be, ab, done, failed, tst, tpc, parent, FaultPc>>

CFinish == /\ at[PLC + 1] > 0 /\ at' = Dec(at, PLC + 1) /\ done' = done + 1
           /\ UNCHANGED <<q, bw, be, ab, failed, tst, tpc, bstate, bcount, parent, FaultPc>>

CAbort == /\ ab > 0 /\ ab' = ab - 1 /\ failed' = failed + 1
          /\ bstate' = IF FailAction = "abort" THEN -2 ELSE ResetState
          /\ UNCHANGED <<q, at, bw, be, done, tst, tpc, bcount, parent, FaultPc>>

\* ---------------------------------------------------------------- the tracked stripe
TFail(bs, bc) == /\ tst' = IF FailAction # "none" THEN "aborting" ELSE "failed"
                 /\ bstate' = bs /\ bcount' = bc

TStart == /\ tst = "queued" /\ tst' = "run" /\ tpc' = 1
          /\ UNCHANGED <<q, at, bw, be, ab, done, failed, bstate, bcount, parent, FaultPc>>

TWork == /\ tst = "run" /\ tpc \in 1..PL /\ Prog[tpc] = "work"
         /\ IF FaultPc = tpc
              THEN /\ TFail(bstate, bcount) /\ UNCHANGED <<q, at, bw, be, ab, done, failed, tpc, parent, FaultPc>>
              ELSE /\ tpc' = tpc + 1 /\ UNCHANGED <<q, at, bw, be, ab, done, failed, tst, bstate, bcount, parent, FaultPc>>

TWaitSleep == /\ tst = "run" /\ TAtWait(tpc) /\ bstate \in {-1, 1} /\ tst' = "benter"
              /\ UNCHANGED <<q, at, bw, be, ab, done, failed, tpc, bstate, bcount, parent, FaultPc>>

TWaitBroken == /\ tst \in {"run", "benter"} /\ TAtWait(tpc) /\ bstate = -2 /\ TFail(bstate, bcount)
               /\ UNCHANGED <<q, at, bw, be, ab, done, failed, tpc, parent, FaultPc>>

TEnter == /\ tst \in {"run", "benter"} /\ TAtWait(tpc) /\ bstate = 0
          /\ LET i == bcount IN
             IF i + 1 = S
               THEN /\ bcount' = i /\ bstate' = ExitState(1, i) /\ tpc' = tpc + 1 /\ tst' = "run"
               ELSE /\ bcount' = i + 1 /\ bstate' = bstate /\ tst' = "bwait" /\ tpc' = tpc
          /\ UNCHANGED <<q, at, bw, be, ab, done, failed, parent, FaultPc>>

TWake == /\ tst = "bwait" /\ bstate # 0
         /\ IF bstate < 0
              THEN /\ TFail(ExitState(bstate, bcount - 1), bcount - 1) /\ tpc' = tpc
              ELSE /\ bcount' = bcount - 1 /\ bstate' = ExitState(bstate, bcount - 1) /\ tst' = "run" /\ tpc' = tpc + 1
         /\ UNCHANGED <<q, at, bw, be, ab, done, failed, parent, FaultPc>>

TFinish == /\ tst = "run" /\ tpc = PL + 1 /\ tst' = "done"
           /\ UNCHANGED <<q, at, bw, be, ab, done, failed, tpc, bstate, bcount, parent, FaultPc>>

TAbort == /\ tst = "aborting" /\ tst' = "failed"
          /\ bstate' = IF FailAction = "abort" THEN -2 ELSE ResetState
          /\ UNCHANGED <<q, at, bw, be, ab, done, failed, tpc, bcount, parent, FaultPc>>

\* ---------------------------------------------------------------- the parent
AllFinished == q = 0 /\ ab = 0 /\ done + failed = S - 1 /\ tst \in {"done", "failed"}
ParentGet == /\ parent = "pending" /\ AllFinished
             /\ parent' = IF failed > 0 \/ tst = "failed" THEN "raised" ELSE "ok"
             /\ UNCHANGED <<q, at, bw, be, ab, done, failed, tst, tpc, bstate, bcount, FaultPc>>
Terminated == parent # "pending" /\ UNCHANGED vars

Next == \/ CStart \/ CFinish \/ CAbort
        \/ \E k \in Locs : CWork(k) \/ CWaitSleep(k) \/ CWaitBrokenRun(k) \/ CWaitBrokenEnter(k)
                           \/ CEnter(k, "run") \/ CEnter(k, "enter") \/ CWake(k)
        \/ TStart \/ TWork \/ TWaitSleep \/ TWaitBroken \/ TEnter \/ TWake \/ TFinish \/ TAbort
        \/ ParentGet \/ Terminated
Spec == Init /\ [][Next]_vars

NoBrokenWithoutFault == (FaultPc = 0) => (failed = 0 /\ ab = 0 /\ tst \notin {"failed", "aborting"})
FaultIsReported == (parent # "pending" /\ FaultPc # 0) => parent = "raised"
TypeOK == bcount \in 0..S /\ bstate \in {0, 1, -1, -2} /\ q \in 0..S /\ done + failed + ab <= S
====
