#!/usr/bin/env python3
"""Regenerates MANIFEST.json from the table below (keeps it valid at all times)."""
import json, os, subprocess
HERE = os.path.dirname(os.path.abspath(__file__))
PROPS = [json.loads(l) for l in open(os.path.join(HERE, "properties.jsonl"))]

# id -> (category, technique, text, note, design_ref)
CLAIMED = {}
exec(open(os.path.join(HERE, "manifest_table.py")).read())

def hooks_commits():
    try:
        out = subprocess.run(["git", "-C", "/repo", "log", "--format=%H %s"], capture_output=True, text=True).stdout
        return [l.split()[0] for l in out.splitlines() if " verif-hook:" in l or l.split(" ", 1)[1].startswith("verif hooks")]
    except Exception:
        return []

checks = []
for p in PROPS:
    pid = p["id"]
    if pid not in CLAIMED:
        continue
    c = CLAIMED[pid]
    checks.append(dict(property_id=pid,
                       quick_cmd="./run_check.py %s --tier quick" % pid,
                       thorough_cmd="./run_check.py %s --tier thorough" % pid,
                       evidence_file="/verif/evidence/%s.json" % pid,
                       replay_cmd_template="./run_check.py %s --replay {path}" % pid,
                       engine=c["engine"],
                       level_claimed=dict(category=c["category"], text=c["text"], design_ref=c["design_ref"]),
                       level_note=c["note"], technique=c["technique"]))
na = [dict(property_id=p["id"], reason=NOT_YET.get(p["id"], "check not built yet in this session (planned, see DESIGN.md section 3)"))
      for p in PROPS if p["id"] not in CLAIMED]
man = dict(version=1,
           setup_cmd="cd /verif && /venv/bin/python -c \"import AegeanTools, numpy, scipy, astropy, healpy, lmfit\" && mkdir -p evidence replays",
           hooks=dict(guard="AEGEAN_VERIF", enable="export AEGEAN_VERIF=1 (run_check.py sets it; /venv has an editable install of /repo so no rebuild is needed)",
                      baseline_off_cmd="cd /repo && env -u AEGEAN_VERIF /venv/bin/python -m pytest -ra -q -p no:cacheprovider --timeout=900 --continue-on-collection-errors",
                      source_commits=hooks_commits(), add_only=True),
           engines=ENGINES, checks=checks, notes=NOTES, not_applicable=na)
json.dump(man, open(os.path.join(HERE, "MANIFEST.json"), "w"), indent=1)
print("claimed", len(checks), "not claimed", len(na))
