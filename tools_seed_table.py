#!/usr/bin/env python3
"""Regenerates section 10.6 of DESIGN.md (between the markers) from seeded/*/meta.json."""
import glob, json, os, re
HERE = os.path.dirname(os.path.abspath(__file__))
rows = []
for f in sorted(glob.glob(os.path.join(HERE, "seeded", "*", "meta.json"))):
    m = json.load(open(f))
    patch = open(os.path.join(os.path.dirname(f), "patch.diff")).read()
    files = sorted(set(re.findall(r"^\+\+\+ b/(\S+)", patch, flags=re.M)))
    det = []
    for p, r in m.get("checks", {}).items():
        if r["exit"] == 1:
            cls = ", ".join(c.split(":")[0].replace("violation class ", "") for c in r["violation_classes"][:4])
            det.append("%s (%s)" % (p, cls))
    missed = [p for p, r in m.get("checks", {}).items() if r["exit"] != 1]
    rows.append("| %s | %s | %s | %s | %s | %s |" % (m["id"], m["breaks_property"], ", ".join(os.path.basename(x) for x in files),
                                                  (m.get("needs_to_manifest") or "").replace("|", "/"),
                                                  "; ".join(det) or "**none**", ", ".join(missed) or "-"))
txt = ["### 10.6 Seeded changes and the checks that catch them", "",
       "Every change below was written by a fresh sub-agent that saw only the property text and its own scratch worktree",
       "(nothing from /verif), passes the repository's own 169 tests, and comes with a demonstration that fails with the change",
       "and passes without it; all of that was re-confirmed here in a scratch worktree before the checks were run against it",
       "(`tools_seed_eval.py`, details in `seeded/<id>/meta.json`).  'also run' lists neighbouring checks that were tried and are",
       "not expected to fire because the change does not touch their property.", "",
       "| id | property | file | needs, to manifest | detected by (violation classes) | also run, silent |",
       "|---|---|---|---|---|---|"] + rows + [""]
p = os.path.join(HERE, "DESIGN.md")
s = open(p).read()
a, b = "<!-- SEED-TABLE-BEGIN -->", "<!-- SEED-TABLE-END -->"
block = a + "\n" + "\n".join(txt) + "\n" + b
if a in s:
    s = s[:s.index(a)] + block + s[s.index(b) + len(b):]
else:
    s = s.replace("### 10.5 Detection of seeded changes\n\nSee section 10.6 (filled in as the seeded changes are evaluated) and `seeded/<id>/meta.json`.\n",
                  "### 10.5 Strengthening done because of seeded changes\n\n"
                  "* seed C12 (save() clears the aliased cache) was caught by C12 but slipped through C08 although save+load is in C08's\n"
                  "  alphabet: the reloaded (emptied) register had the same *implementation* state as the initial state and was de-duplicated\n"
                  "  before its invariants were evaluated.  The canonical key now contains the model set as well, so two histories that\n"
                  "  reach one implementation state with different models are both checked (C08 now reports area/demoted/membership).\n"
                  "* seed C07a (reset() instead of abort() in the worker wrapper) made the conformance layer disagree (exit 2) because the\n"
                  "  model only knew 'abort or nothing'.  The extracted `FailAction` is now abort / reset / none, TLC finds the deadlock on\n"
                  "  the mutant, it is confirmed under the scheduler and on real processes; a check now exits 1 whenever it has a\n"
                  "  VIOLATION line (harness errors are reported in addition).\n"
                  "* seed C15 (expand raises for residual-1 shapes) crashed C20's own oracle (exit 2); C20 now reports it as a violation.\n"
                  "* sub-agent findings while writing C14/C13 led to C01 block D (peak exactly between pixels at SNR 1e2..1e4): the lattice of\n"
                  "  the first version shifted every phase by the seed and used a single SNR, and missed both the amplitude-bound defect and\n"
                  "  the two-summit defect.\n\n" + block + "\n")
open(p, "w").write(s)
print(len(rows), "seeds")
