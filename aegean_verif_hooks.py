"""
Target of the AEGEAN_VERIF hook points in /repo/AegeanTools/BANE.py.
`handler` is installed by the verification harness (mc/sched.py based explorer, or the cross-process gate
controller); when it is None the hook does nothing.
"""
handler = None


def point(label, region):
    h = handler
    if h is not None:
        h(label, region)
