"""
Plain pytest (no explorer): every counterexample kept from a seeded change (seeded/<id>/replays/*.json - the minimal failing
input, operation history or schedule found by a check while the seeded patch was applied) is replayed against the CURRENT
tree of /repo and must not fail there.

    /venv/bin/python -m pytest -q /verif/tests/test_seed_replays.py

To see one fail, apply the seed first:  git -C /repo apply /verif/seeded/<id>/patch.diff  (and undo with
git -C /repo checkout -- .) - each replay then exits 1 and prints REPLAY-VIOLATION lines.
"""
import glob
import os
import subprocess

import pytest

VERIF = os.path.dirname(os.path.dirname(os.path.abspath(__file__)))
FILES = sorted(glob.glob(os.path.join(VERIF, "seeded", "*", "replays", "*.json")))


@pytest.mark.parametrize("path", FILES, ids=[os.path.relpath(f, os.path.join(VERIF, "seeded")) for f in FILES])
def test_replay_is_clean_on_current_tree(path):
    prop = os.path.basename(path).split("_")[0]
    r = subprocess.run([os.path.join(VERIF, "run_check.py"), prop, "--replay", path], cwd=VERIF, capture_output=True, text=True, timeout=900)
    assert r.returncode == 0, r.stdout[-2000:] + r.stderr[-2000:]
