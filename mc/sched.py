"""
E3: stateless exploration of thread interleavings of REAL code under a cooperative (baton passing) scheduler,
CHESS style, with iterative preemption bounding.

One *execution* is determined by a choice sequence.  Tasks are python threads, exactly one of which holds the
baton; it runs until it reaches a scheduling point (a hook label, a lock acquisition), blocks (condition wait)
or ends.  At every such step the scheduler computes the enabled tasks in canonical order (the task that just ran
first if it is still enabled, then ascending index), takes `choices[i]` (0 beyond the prefix) and records the
decision.  "no enabled task while some task is unfinished" is a deadlock - the real code would hang.

Replaying a prefix whose recorded enabled-set differs is a hard error (ReplayDivergence): all nondeterminism
must be owned by the scheduler.
"""
import threading

threading.stack_size(256 * 1024)


class Poison(BaseException):
    """raised inside parked task threads to unwind an abandoned execution"""


class Deadlock(Exception):
    pass


class ReplayDivergence(Exception):
    pass


class InjectedFault(RuntimeError):
    pass


class Task(object):
    def __init__(self, idx, fn, arg):
        self.idx = idx
        self.fn = fn
        self.arg = arg
        self.state = "queued"   # queued ready blocked done failed poisoned
        self.pred = None
        self.label = "<queued>"
        self.exc = None
        self.result = None
        self.thread = None
        self.go = threading.Semaphore(0)
        self.trace = []


class Scheduler(object):
    def __init__(self, choices=(), slots=None, on_label=None, chooser=None, clip=False):
        self.clip = clip           # clip out-of-range choices instead of failing (for hand-written preference lists)
        self.chooser = chooser     # optional callable(sched, enabled_tasks) -> k (used by conformance replay)
        self.choices = list(choices)
        self.slots = slots
        self.tasks = []
        self.points = []        # dicts: enabled (ids), chosen (k), labels, last_enabled (bool)
        self.back = threading.Semaphore(0)
        self.by_thread = {}
        self.poison = False
        self.last = None
        self.busy = 0
        self.on_label = on_label   # callable(task_idx, label) -> None or raises (fault injection)
        self.events = []           # global order of (task, label) as executed

    # ---- task side ---------------------------------------------------------
    def me(self):
        return self.by_thread.get(threading.get_ident())

    def _park(self, t):
        self.back.release()
        t.go.acquire()
        if self.poison:
            raise Poison()

    def yield_point(self, label):
        t = self.me()
        if t is None:      # called from the driver thread (e.g. the parent): not a scheduling point
            return
        t.state = "ready"
        t.label = label
        self._park(t)
        t.trace.append(label)
        self.events.append((t.idx, label))
        if self.on_label is not None:
            self.on_label(t.idx, label)

    def block(self, pred, label):
        t = self.me()
        if t is None:
            raise RuntimeError("the driver thread may not block on a scheduled primitive")
        t.state = "blocked"
        t.pred = pred
        t.label = label
        self._park(t)
        t.pred = None
        t.trace.append(label + ":woken")
        self.events.append((t.idx, label + ":woken"))

    def _body(self, t):
        self.by_thread[threading.get_ident()] = t
        t.go.acquire()
        try:
            if self.poison:
                raise Poison()
            t.result = t.fn(t.arg)
            t.state = "done"
        except Poison:
            t.state = "poisoned"
        except BaseException as e:  # noqa
            t.exc = e
            t.state = "failed"
        finally:
            self.busy -= 1
            self.by_thread.pop(threading.get_ident(), None)
            self.back.release()

    # ---- driver side -------------------------------------------------------
    def submit(self, fn, args):
        for a in args:
            self.tasks.append(Task(len(self.tasks), fn, a))

    def run(self):
        """returns when every task is finished; raises Deadlock otherwise (after unwinding the threads)"""
        try:
            self._loop()
        except BaseException:
            self._unwind()
            raise

    def _loop(self):
        i = len(self.points)
        while True:
            for t in self.tasks:
                if t.state == "queued" and (self.slots is None or self.busy < self.slots):
                    t.state = "ready"
                    t.label = "<spawn>"
                    self.busy += 1
            enabled = [t for t in self.tasks if t.state == "ready" or (t.state == "blocked" and t.pred())]
            if not enabled:
                unfinished = [t for t in self.tasks if t.state not in ("done", "failed")]
                if not unfinished:
                    return
                if self.chooser is not None and hasattr(self.chooser, "at_deadlock"):
                    self.chooser.at_deadlock(self)
                raise Deadlock("deadlock: " + ", ".join("stripe %d %s at %s" % (t.idx, t.state, t.label) for t in unfinished))
            last_enabled = self.last is not None and self.last in enabled
            if last_enabled:
                enabled.remove(self.last)
                enabled.insert(0, self.last)
            if self.chooser is not None:
                k = self.chooser(self, enabled)
            elif i < len(self.choices):
                k = self.choices[i]
                if self.clip:
                    k = min(k, len(enabled) - 1)
                if k >= len(enabled):
                    raise ReplayDivergence("choice %d of point %d out of range (%d enabled)" % (k, i, len(enabled)))
            else:
                k = 0
            self.points.append(dict(enabled=[t.idx for t in enabled], chosen=k, labels=[t.label for t in enabled],
                                    last_enabled=last_enabled))
            i += 1
            t = enabled[k]
            self.last = t
            if t.thread is None:
                t.thread = threading.Thread(target=self._body, args=(t,), daemon=True)
                t.thread.start()
            t.state = "running"
            t.go.release()
            self.back.acquire()

    def _unwind(self):
        self.poison = True
        for t in self.tasks:
            if t.thread is not None and t.state in ("ready", "blocked", "running"):
                t.go.release()
                self.back.acquire()
        for t in self.tasks:
            if t.thread is not None:
                t.thread.join(timeout=5)

    def preemptions_before(self, i):
        n = 0
        for p in self.points[:i]:
            if p["last_enabled"] and p["chosen"] != 0:
                n += 1
        return n


class SchedCondition(object):
    """condition variable whose lock / wait / notify are simulated by the scheduler; critical sections are atomic
    (the only blocking operation inside one is wait(), which releases the lock)"""

    def __init__(self, sched, name="cond"):
        self.s = sched
        self.gen = 0
        self.owner = None
        self.name = name

    def acquire(self, *a, **k):
        import sys
        f = sys._getframe(1)
        if f.f_code.co_name == "__enter__":
            f = f.f_back
        # which barrier method takes the lock: wait / reset / abort
        self.s.yield_point(self.name + ".acquire:" + f.f_code.co_name)
        if self.owner is not None:
            raise RuntimeError("scheduler bug: lock held by a parked task")
        self.owner = threading.get_ident()
        return True

    def release(self):
        self.owner = None

    def __enter__(self):
        self.acquire()
        return self

    def __exit__(self, *a):
        self.release()
        return False

    def wait(self, timeout=None):
        import sys
        g = self.gen
        self.owner = None
        caller = sys._getframe(1).f_code.co_name      # '_enter' (barrier draining) or 'wait_for' (inside _wait)
        self.s.block(lambda: self.gen > g, self.name + (".enter_wait" if caller == "_enter" else ".wait"))
        self.owner = threading.get_ident()
        return True

    def wait_for(self, predicate, timeout=None):
        r = predicate()
        if timeout is not None and not r:
            # a FINITE timeout is an environment event: the timer may land before the condition holds.  Every timed wait is
            # counted; the scheduler can be told to let the n-th one expire (sched.fire_timer = n).
            n = getattr(self.s, "timed_waits", 0)
            self.s.timed_waits = n + 1
            if getattr(self.s, "fire_timer", None) == n:
                return False
        while not r:
            self.wait()
            r = predicate()
        return r

    def notify_all(self):
        self.gen += 1

    notify = notify_all


class SchedBarrier(threading.Barrier):
    """CPython's own Barrier algorithm (the one multiprocessing.Barrier inherits), with a scheduled condition"""

    def __init__(self, sched, parties, action=None, timeout=None):
        threading.Barrier.__init__(self, parties, action=action, timeout=timeout)
        self._cond = SchedCondition(sched, "barrier")
        self.sched = sched
        self.wait_returns = []

    def wait(self, timeout=None):
        i = threading.Barrier.wait(self, timeout)
        t = self.sched.me()
        self.wait_returns.append((t.idx if t else -1, i))
        return i


class FakeAsyncResult(object):
    def __init__(self, pool):
        self.pool = pool

    def get(self, timeout=None):
        s = self.pool.sched
        s.run()
        failed = [t for t in s.tasks if t.state == "failed"]
        if failed:
            # CPython MapResult keeps the first failure (in completion order)
            raise failed[0].exc
        return [t.result for t in s.tasks]


class FakePool(object):
    """`processes` worker slots; tasks start in order when a slot is free and keep it until they end
    (maxtasksperchild=1); map_async(...).get() returns / re-raises only when ALL tasks have finished"""

    def __init__(self, sched, processes=None, initializer=None, initargs=(), maxtasksperchild=None):
        self.sched = sched
        sched.slots = processes
        self.initializer = initializer
        self.initargs = initargs
        self.closed = False
        self.joined = False
        if initializer is not None:
            initializer(*initargs)

    def map_async(self, fn, args, chunksize=None):
        if self.closed:
            raise ValueError("Pool not running")        # as multiprocessing.Pool._check_running
        sched = self.sched

        def body(a):
            r = fn(a)
            sched.yield_point("<finish>")
            return r
        self.sched.submit(body, list(args))
        return FakeAsyncResult(self)

    def close(self):
        self.closed = True

    def join(self):
        if not self.closed:
            raise ValueError("Pool is still running")   # as multiprocessing.Pool.join
        self.joined = True

    def terminate(self):
        self.closed = True


class FakeContext(object):
    def __init__(self, sched):
        self.sched = sched
        self.barriers = []
        self.pools = []

    def Barrier(self, parties, action=None, timeout=None):
        b = SchedBarrier(self.sched, parties, action, timeout)
        self.barriers.append(b)
        return b

    def Pool(self, processes=None, initializer=None, initargs=(), maxtasksperchild=None):
        p = FakePool(self.sched, processes, initializer, initargs, maxtasksperchild)
        self.pools.append(p)
        return p


class FakeMultiprocessing(object):
    """stands in for the `multiprocessing` module inside the code under test"""

    def __init__(self, sched, cpu_count=4):
        self.sched = sched
        self.ctx = FakeContext(sched)
        self._cpu = cpu_count

    def get_context(self, method=None):
        return self.ctx

    def cpu_count(self):
        return self._cpu


def explore(run_one, bound=None, max_executions=None, on_execution=None):
    """
    run_one(choices) -> Scheduler-like object with .points (list of dicts) after executing one schedule.
    Depth-first enumeration of all choice sequences with at most `bound` preemptions (None = unbounded).
    Returns dict(executions, capped).
    """
    stack = [[]]
    n = 0
    capped = False
    while stack:
        prefix = stack.pop()
        x = run_one(prefix)
        n += 1
        if on_execution is not None:
            on_execution(prefix, x)
        pts = x.points
        # replay consistency
        if len(pts) < len(prefix):
            raise ReplayDivergence("execution ended after %d points, prefix has %d" % (len(pts), len(prefix)))
        pre = 0
        costs = []
        for i, p in enumerate(pts):
            costs.append(pre)
            if p["last_enabled"] and p["chosen"] != 0:
                pre += 1
        for i in range(len(pts) - 1, len(prefix) - 1, -1):
            p = pts[i]
            for alt in range(1, len(p["enabled"])):
                cost = costs[i] + (1 if p["last_enabled"] else 0)
                if bound is not None and cost > bound:
                    continue
                stack.append([q["chosen"] for q in pts[:i]] + [alt])
        if max_executions is not None and n >= max_executions and stack:
            capped = True
            break
    return dict(executions=n, capped=capped)
