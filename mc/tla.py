"""
E4: TLC driver for models/BaneProtocol.tla - instance generation, verdict runs (with JSON counterexample),
state-graph dumps (dot with action labels), graph parsing and path enumeration for conformance replay.
"""
import json
import os
import re
import shutil
import subprocess

HERE = os.path.dirname(os.path.dirname(os.path.abspath(__file__)))
SPEC = os.path.join(HERE, "models", "BaneProtocol.tla")
SPEC_COUNTER = os.path.join(HERE, "models", "BaneCounter.tla")


def tla_seq(items):
    return "<<" + ", ".join('"%s"' % i for i in items) + ">>"


def write_instance(d, S, C, prog, faults, abort):
    os.makedirs(d, exist_ok=True)
    shutil.copy(SPEC, os.path.join(d, "BaneProtocol.tla"))
    fs = "{" + ", ".join("<<%d, %d>>" % tuple(f) for f in faults) + "}"
    with open(os.path.join(d, "MC.tla"), "w") as f:
        f.write("---- MODULE MC ----\nEXTENDS BaneProtocol\nProgConst == %s\nFaultsConst == %s\n====\n" % (tla_seq(prog), fs))
    with open(os.path.join(d, "MC.cfg"), "w") as f:
        f.write("SPECIFICATION Spec\nCONSTANTS\n S = %d\n C = %d\n Prog <- ProgConst\n Faults <- FaultsConst\n FailAction = \"%s\"\n"
                "INVARIANTS TypeOK NoBrokenWithoutFault FaultIsReported\n" % (S, C, abort if isinstance(abort, str) else ("abort" if abort else "none")))


def compress_program(prog):
    """merge every run of work steps; returns (compressed program, map pc (1-based, incl. PL+1) -> compressed location)"""
    comp, cmap = [], {}
    for i, op in enumerate(prog):
        if op == "work" and comp and comp[-1] == "work":
            cmap[i + 1] = len(comp)
            continue
        comp.append(op)
        cmap[i + 1] = len(comp)
    cmap[len(prog) + 1] = len(comp) + 1
    return comp, cmap


def write_counter_instance(d, S, prog, faultpcs, failaction):
    """instance of the counter abstraction (C = S, programs over work/wait only)"""
    assert all(op in ("work", "wait") for op in prog)
    comp, _ = compress_program(prog)
    os.makedirs(d, exist_ok=True)
    shutil.copy(SPEC_COUNTER, os.path.join(d, "BaneCounter.tla"))
    with open(os.path.join(d, "MC.tla"), "w") as f:
        f.write("---- MODULE MC ----\nEXTENDS BaneCounter\nProgConst == %s\nProgCConst == %s\nFaultPcsConst == {%s}\n====\n" % (
            tla_seq(prog), tla_seq(comp), ", ".join(str(int(p)) for p in faultpcs)))
    with open(os.path.join(d, "MC.cfg"), "w") as f:
        f.write("SPECIFICATION Spec\nCONSTANTS\n S = %d\n Prog <- ProgConst\n ProgC <- ProgCConst\n FaultPcs <- FaultPcsConst\n FailAction = \"%s\"\n"
                "INVARIANTS TypeOK NoBrokenWithoutFault FaultIsReported\n" % (S, failaction))


def project_to_counter(state, tracked, prog):
    """forget stripe identities of a BaneProtocol state (dict) except for the tracked stripe (1-based); the counted
    stripes' program counters are mapped to the compressed program"""
    comp, cmap = compress_program(prog)
    S = len(state["st"])
    z = lambda: [0] * (len(comp) + 1)
    at, bw, be = z(), z(), z()
    q = ab = done = failed = 0
    for s in range(1, S + 1):
        if s == tracked:
            continue
        st, pc = state["st"][s - 1], state["pc"][s - 1]
        if st == "queued":
            q += 1
        elif st == "run":
            at[cmap[pc] - 1] += 1
        elif st == "bwait":
            bw[cmap[pc] - 1] += 1
        elif st == "benter":
            be[cmap[pc] - 1] += 1
        elif st == "aborting":
            ab += 1
        elif st == "done":
            done += 1
        elif st == "failed":
            failed += 1
    return (q, tuple(at), tuple(bw), tuple(be), ab, done, failed, state["st"][tracked - 1], state["pc"][tracked - 1],
            state["bstate"], state["bcount"], state["parent"], state["FaultPc"])


def counter_key(state):
    return (state["q"], tuple(state["at"]), tuple(state["bw"]), tuple(state["be"]), state["ab"], state["done"], state["failed"],
            state["tst"], state["tpc"], state["bstate"], state["bcount"], state["parent"], state["FaultPc"])


def _tlc(d, extra, timeout=3600, workers=1):
    meta = os.path.join(d, "meta")
    shutil.rmtree(meta, ignore_errors=True)
    cmd = ["tlc", "-workers", str(workers), "-noGenerateSpecTE", "-metadir", meta] + extra + ["MC.tla"]
    r = subprocess.run(cmd, cwd=d, capture_output=True, text=True, timeout=timeout)
    shutil.rmtree(meta, ignore_errors=True)
    return r.stdout + r.stderr


def verdict(d, workers=1):
    """model check with deadlock detection; returns dict(error, states, distinct, trace)"""
    tr = os.path.join(d, "trace.json")
    if os.path.exists(tr):
        os.remove(tr)
    out = _tlc(d, ["-dumpTrace", "json", "trace.json"], workers=workers)
    res = dict(error=None, states=0, distinct=0, trace=None, raw=out[-2000:])
    m = re.search(r"(\d+) states generated, (\d+) distinct states found", out)
    if m:
        res["states"], res["distinct"] = int(m.group(1)), int(m.group(2))
    if "Deadlock reached" in out:
        res["error"] = "deadlock"
    else:
        m = re.search(r"Invariant (\w+) is violated", out)
        if m:
            res["error"] = "invariant " + m.group(1)
        elif "No error has been found" not in out:
            res["error"] = "tlc_failed"
    if res["error"] in ("deadlock",) or (res["error"] or "").startswith("invariant"):
        if os.path.exists(tr):
            with open(tr) as f:
                j = json.load(f)
            steps = []
            acts = j.get("counterexample", {}).get("action", [])
            for a in acts:
                src, act, dst = a
                steps.append(dict(action=act["name"], s=act.get("context", {}).get("s"), state=dst[1]))
            init = acts[0][0][1] if acts else None
            if not acts:
                st = j.get("counterexample", {}).get("state", [])
                init = st[0][1] if st else None
            res["trace"] = dict(init=init, steps=steps)
    return res


_NODE = re.compile(r'^(-?\d+) \[label="((?:[^"\\]|\\.)*)"(,style = filled)?[\],]')
_EDGE = re.compile(r'^(-?\d+) -> (-?\d+) \[label="([A-Za-z0-9_]+)(?:\((\d+)\))?"')


def parse_state(label):
    st = {}
    for part in label.replace("\\\\", "\\").split("\\n"):
        m = re.match(r'^/\\ (\w+) = (.*)$', part.strip())
        if not m:
            continue
        k, v = m.group(1), m.group(2).strip()
        if v.startswith("<<"):
            inner = v[2:-2].strip()
            vals = [x.strip() for x in inner.split(",")] if inner else []
            st[k] = [x.strip('"').replace('\\"', "") if '"' in x else int(x) for x in vals]
        elif '"' in v:
            st[k] = v.replace('\\"', "").strip('"')
        else:
            st[k] = int(v)
    return st


def graph(d, timeout=3600):
    """full reachable state graph (deadlock check off, continue past invariant violations)"""
    g = os.path.join(d, "g.dot")
    if os.path.exists(g):
        os.remove(g)
    out = _tlc(d, ["-continue", "-deadlock", "-dump", "dot,actionlabels", "g.dot"], timeout=timeout)
    nodes, edges, inits = {}, [], []
    with open(g) as f:
        for line in f:
            m = _EDGE.match(line)
            if m:
                edges.append((m.group(1), m.group(2), m.group(3), int(m.group(4)) if m.group(4) else None))
                continue
            m = _NODE.match(line)
            if m:
                nid = m.group(1)
                if nid not in nodes:
                    nodes[nid] = parse_state(m.group(2).replace('\\"', '"'))
                if m.group(3):
                    inits.append(nid)
    os.remove(g)
    m = re.search(r"(\d+) states generated, (\d+) distinct states found", out)
    return dict(nodes=nodes, edges=edges, inits=inits, distinct=int(m.group(2)) if m else len(nodes))


def successors(g):
    succ = {}
    for a, b, act, s in g["edges"]:
        if a == b:
            continue        # Terminated stuttering
        succ.setdefault(a, []).append((b, act, s))
    return succ


def count_maximal_paths(g):
    succ = successors(g)
    memo = {}

    def cnt(n):
        if n in memo:
            return memo[n]
        ss = succ.get(n, [])
        memo[n] = 1 if not ss else sum(cnt(b) for b, _, _ in ss)
        return memo[n]
    import sys
    sys.setrecursionlimit(100000)
    return sum(cnt(i) for i in g["inits"])


def maximal_paths(g, cap=None):
    """all maximal paths as lists of (node, action, s) steps, starting at each initial node"""
    succ = successors(g)
    out = []
    for i in g["inits"]:
        stack = [(i, [])]
        while stack:
            n, path = stack.pop()
            ss = succ.get(n, [])
            if not ss:
                out.append((i, path))
                if cap and len(out) >= cap:
                    return out
                continue
            for b, act, s in reversed(ss):
                stack.append((b, path + [(b, act, s)]))
    return out


def edge_cover_paths(g):
    """a set of maximal paths that together traverse every edge of the graph at least once"""
    succ = successors(g)
    pred = {}
    for a, lst in succ.items():
        for b, act, s in lst:
            pred.setdefault(b, []).append((a, act, s))
    # shortest path from an init to every node (BFS)
    from collections import deque
    par = {}
    dq = deque()
    for i in g["inits"]:
        par[i] = None
        dq.append(i)
    while dq:
        n = dq.popleft()
        for b, act, s in succ.get(n, []):
            if b not in par:
                par[b] = (n, act, s)
                dq.append(b)

    def prefix(n):
        p = []
        while par[n] is not None:
            a, act, s = par[n]
            p.append((n, act, s))
            n = a
        return n, p[::-1]

    covered = set()
    paths = []
    for a, lst in succ.items():
        for b, act, s in lst:
            if (a, b, act, s) in covered or a not in par:
                continue
            init, path = prefix(a)
            path = path + [(b, act, s)]
            # extend greedily, preferring uncovered edges, until a terminal node
            n = b
            guard = 0
            while succ.get(n) and guard < 10000:
                guard += 1
                nxt = None
                for (b2, act2, s2) in succ[n]:
                    if (n, b2, act2, s2) not in covered:
                        nxt = (b2, act2, s2)
                        break
                if nxt is None:
                    nxt = succ[n][0]
                path.append(nxt)
                n = nxt[0]
            prev = init
            for (b3, act3, s3) in path:
                covered.add((prev, b3, act3, s3))
                prev = b3
            paths.append((init, path))
    return paths
