"""
E2: explicit-state breadth-first search over operation histories of real objects.

A `system` object provides
    init()                     -> state (picklable, deep-copyable)
    ops(state)                 -> list of op labels (JSON-able) enabled in that state
    apply(state, op)           -> (new_state, [violation dict...])    (must not mutate `state`)
    canon(state)               -> hashable canonical key of the IMPLEMENTATION state (full internal representation)
    check(state, history)      -> [violation dict...]                 (invariants; must not mutate `state`)
A violation dict has keys kind, what.  States that violate an invariant are reported and not expanded further
(their futures are not meaningful, and the first = shortest witness is what matters).

Every level is expanded in parallel (fork pool): phase 1 applies every enabled op to every frontier state, the
parent de-duplicates on canon(), phase 2 evaluates the invariants once per NEW state.
"""
import multiprocessing as mp
import os
import pickle

_SYS = None


def _expand(item):
    hist, blob = item
    state = pickle.loads(blob)
    out = []
    for op in _SYS.ops(state):
        try:
            new, viols = _SYS.apply(state, op)
        except Exception as e:  # an operation of the alphabet must not raise
            out.append((None, hist + [op], None, [dict(kind="op_raised", what="%s raised %r" % (op, e))]))
            continue
        out.append((_SYS.canon(new), hist + [op], pickle.dumps(new, -1), viols))
    return out


def _check(item):
    hist, blob = item
    state = pickle.loads(blob)
    try:
        return _SYS.check(state, hist)
    except Exception as e:
        import traceback
        return [dict(kind="invariant_raised", what="checking the invariants raised %r\n%s" % (e, traceback.format_exc()[-800:]))]


class Result(object):
    def __init__(self):
        self.states = 0
        self.transitions = 0
        self.levels = []
        self.violations = []   # (kind, history, what)
        self.pruned = 0
        self.complete_depth = 0
        self.samples = []


def bfs(system, depth, workers=None, visit=None, max_states=None):
    """visit(history, state) is called in the parent for every new non-violating state (used by C12)."""
    global _SYS
    _SYS = system
    workers = workers or min(16, os.cpu_count() or 1)
    res = Result()
    init = system.init()
    seen = {system.canon(init)}
    frontier = [([], pickle.dumps(init, -1))]
    res.states = 1
    v0 = system.check(init, [])
    for v in v0:
        res.violations.append((v["kind"], [], v["what"]))
    if visit:
        visit([], init)
    ctx = mp.get_context("fork")
    pool = ctx.Pool(workers) if workers > 1 else None
    try:
        for level in range(1, depth + 1):
            if pool:
                chunks = pool.map(_expand, frontier, chunksize=max(1, len(frontier) // (workers * 4)))
            else:
                chunks = [_expand(f) for f in frontier]
            new = []
            for lst in chunks:
                for key, hist, blob, viols in lst:
                    res.transitions += 1
                    if viols:
                        for v in viols:
                            res.violations.append((v["kind"], hist, v["what"]))
                        res.pruned += 1
                        continue
                    if key in seen:
                        continue
                    seen.add(key)
                    new.append((hist, blob))
            if pool:
                checks = pool.map(_check, new, chunksize=max(1, len(new) // (workers * 4)))
            else:
                checks = [_check(n) for n in new]
            frontier = []
            for (hist, blob), viols in zip(new, checks):
                res.states += 1
                if viols:
                    for v in viols:
                        res.violations.append((v["kind"], hist, v["what"]))
                    res.pruned += 1
                    continue
                frontier.append((hist, blob))
                if len(res.samples) < 6 and len(hist) == level:
                    res.samples.append(hist)
                if visit:
                    visit(hist, pickle.loads(blob))
            res.levels.append(dict(depth=level, new_states=len(new), frontier=len(frontier)))
            res.complete_depth = level
            if max_states and res.states > max_states:
                break
            if not frontier:
                break
    finally:
        if pool:
            pool.close()
            pool.join()
    return res
