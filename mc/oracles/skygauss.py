"""
Reference sky-plane elliptical Gaussian renderer.  For every pixel centre the sky position comes from the independent
zenithal WCS model; the Gaussian is evaluated on gnomonic (tangent plane) offsets about the SOURCE position, with the
position angle measured East of North and a, b the FWHM axes.  Shares no code with AegeanTools.
"""
import numpy as np

from mc.oracles import wcs_zenithal as wz

FOUR_LN2 = 4 * np.log(2.0)


def tangent_offsets(ra0, dec0, ra, dec):
    """(xi east, eta north) in degrees"""
    a0, d0, a, d = [np.radians(np.asarray(v, dtype=float)) for v in (ra0, dec0, ra, dec)]
    cosc = np.sin(d0) * np.sin(d) + np.cos(d0) * np.cos(d) * np.cos(a - a0)
    xi = np.cos(d) * np.sin(a - a0) / cosc
    eta = (np.cos(d0) * np.sin(d) - np.sin(d0) * np.cos(d) * np.cos(a - a0)) / cosc
    return np.degrees(xi), np.degrees(eta)


def render(hdr, shape, sources):
    """sources: list of dict(ra, dec, peak, a, b, pa) with a, b FWHM in degrees, pa degrees E of N; returns float64 image"""
    rows, cols = shape
    ii, jj = np.mgrid[0:rows, 0:cols]
    ra, dec = wz.pix2sky(hdr, jj + 1.0, ii + 1.0)
    img = np.zeros(shape, dtype=np.float64)
    for s in sources:
        xi, eta = tangent_offsets(s["ra"], s["dec"], ra, dec)
        pa = np.radians(s["pa"])
        u = xi * np.sin(pa) + eta * np.cos(pa)
        v = xi * np.cos(pa) - eta * np.sin(pa)
        img += s["peak"] * np.exp(-FOUR_LN2 * (u * u / s["a"] ** 2 + v * v / s["b"] ** 2))
    return img


def source_at_pixel(hdr, row, col, peak, a_pix, b_pix, pa, scale=None):
    """a source whose centre is at 0-based pixel position (row, col); sizes in pixels (converted with |CDELT2|)"""
    cd = scale if scale is not None else abs(hdr["CDELT2"] if "CDELT2" in hdr else hdr["CD2_2"])
    ra, dec = wz.pix2sky(hdr, col + 1.0, row + 1.0)
    return dict(ra=float(ra), dec=float(dec), peak=peak, a=a_pix * cd, b=b_pix * cd, pa=pa, row=row, col=col)
