"""
Reference N-component elliptical Gaussian pixel model, complex-step differentiable.
model(x, y) = sum_i amp_i exp(-1/2 (u^2/sx^2 + v^2/sy^2)),  u, v = offsets rotated by theta (DEGREES, CCW from the
x axis).  Written from the documented parameterisation; shares no code with AegeanTools.fitting.
"""
import numpy as np

NAMES = ["amp", "xo", "yo", "sx", "sy", "theta"]


def model(comps, x, y):
    """comps: list of 6-tuples (may be complex); x, y: real arrays"""
    tot = 0
    for amp, xo, yo, sx, sy, theta in comps:
        t = theta * (np.pi / 180.0)
        c, s = np.cos(t), np.sin(t)
        dx, dy = x - xo, y - yo
        u = dx * c + dy * s
        v = -dx * s + dy * c
        tot = tot + amp * np.exp(-0.5 * (u * u / (sx * sx) + v * v / (sy * sy)))
    return tot


def derivatives(comps, free, x, y, h=1e-30):
    """rows: component-major, parameter order NAMES, only those with free[i][k] True.  Complex step: exact to
    machine precision, no finite-difference tolerance."""
    rows = []
    x = np.asarray(x, dtype=float)
    y = np.asarray(y, dtype=float)
    for i in range(len(comps)):
        for k in range(6):
            if not free[i][k]:
                continue
            cc = [list(map(complex, c)) for c in comps]
            cc[i][k] += 1j * h
            rows.append(np.imag(model(cc, x, y)) / h)
    return np.array(rows).reshape(len(rows), len(x))
