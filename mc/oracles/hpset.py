"""
Reference model of a sky region: a python set of NESTED HEALPix pixel numbers at one fixed depth.
Promotion / demotion are integer shifts.  healpy is used only as the geometry kernel (pixel centres, point -> pixel,
disc / polygon queries); the set algebra shares no code with AegeanTools.regions.
"""
import healpy as hp
import numpy as np


def descend(pixels, frm, to):
    """all descendants at depth `to` (>= frm) of pixels given at depth `frm`"""
    k = to - frm
    assert k >= 0
    n = 4 ** k
    out = set()
    for p in pixels:
        p = int(p)
        out.update(range(p * n, (p + 1) * n))
    return out


def ascend(pixels, frm, to):
    """ancestors at depth `to` (<= frm) of pixels given at depth `frm`"""
    k = frm - to
    assert k >= 0
    return set(int(p) >> (2 * k) for p in pixels)


def disc(depth, ra, dec, radius):
    """inclusive disc query, radians"""
    vec = hp.ang2vec(np.pi / 2 - dec, ra)
    return set(int(p) for p in hp.query_disc(2 ** depth, vec, radius, inclusive=True, nest=True))


def polygon(depth, positions_deg):
    ras = np.radians([p[0] for p in positions_deg])
    decs = np.radians([p[1] for p in positions_deg])
    vecs = hp.ang2vec(np.pi / 2 - decs, ras)
    return set(int(p) for p in hp.query_polygon(2 ** depth, vecs, inclusive=True, nest=True))


def centres(depth):
    """(ra, dec) radians of every pixel centre at depth"""
    npix = 12 * 4 ** depth
    theta, phi = hp.pix2ang(2 ** depth, np.arange(npix), nest=True)
    return phi, np.pi / 2 - theta


def pix_of(depth, ra, dec):
    """pixel containing (ra, dec) radians"""
    return hp.ang2pix(2 ** depth, np.pi / 2 - np.asarray(dec), np.asarray(ra), nest=True)


def offcentre(depth, frac=0.35):
    """four points per pixel, each a fraction of the way from the centre towards a corner; returns (ra, dec, pix)"""
    npix = 12 * 4 ** depth
    pix = np.arange(npix)
    cen = np.array(hp.pix2vec(2 ** depth, pix, nest=True)).T            # (npix, 3)
    cor = hp.boundaries(2 ** depth, pix, step=1, nest=True)              # (npix, 3, 4)
    pts = (1 - frac) * cen[:, :, None] + frac * cor
    pts /= np.linalg.norm(pts, axis=1)[:, None, :]
    v = pts.transpose(0, 2, 1).reshape(-1, 3)
    theta, phi = hp.vec2ang(v)
    own = np.repeat(pix, 4)
    got = hp.ang2pix(2 ** depth, theta, phi, nest=True)
    keep = got == own   # numerical safety: only keep points that healpy itself puts in the pixel
    return phi[keep], (np.pi / 2 - theta)[keep], own[keep]


def uniq_decode(values):
    """NUNIQ -> list of (order, ipix)"""
    out = []
    for u in values:
        u = int(u)
        order = (u.bit_length() - 3) // 2      # floor(log4(u/4))
        ipix = u - 4 * 4 ** order
        out.append((order, ipix))
    return out
