"""
Reference island finder: 8-connected groups of finite pixels with |snr| >= flood that contain at least one own pixel
with |snr| > seed.  Plain breadth-first search; shares no code with AegeanTools / scipy.ndimage.
"""
import numpy as np


def islands(im, bkg, rms, seed, flood):
    """returns a set of (frozenset of (row, col), (rmin, rmax_exclusive, cmin, cmax_exclusive))"""
    im = np.asarray(im, dtype=float)
    with np.errstate(invalid="ignore", divide="ignore"):
        snr = np.abs(im - bkg) / rms
    rows, cols = snr.shape
    ok = np.isfinite(snr) & np.isfinite(im) & (snr >= flood)
    seen = np.zeros_like(ok)
    out = set()
    for r0 in range(rows):
        for c0 in range(cols):
            if not ok[r0, c0] or seen[r0, c0]:
                continue
            seen[r0, c0] = True
            todo = [(r0, c0)]
            grp = []
            while todo:
                r, c = todo.pop()
                grp.append((r, c))
                for dr in (-1, 0, 1):
                    for dc in (-1, 0, 1):
                        rr, cc = r + dr, c + dc
                        if 0 <= rr < rows and 0 <= cc < cols and ok[rr, cc] and not seen[rr, cc]:
                            seen[rr, cc] = True
                            todo.append((rr, cc))
            if any(snr[p] > seed for p in grp):
                rs = [p[0] for p in grp]
                cs = [p[1] for p in grp]
                out.add((frozenset(grp), (min(rs), max(rs) + 1, min(cs), max(cs) + 1)))
    return out
