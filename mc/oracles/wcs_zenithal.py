"""
Reference implementation of FITS WCS Paper II zenithal projections (SIN/TAN/ZEA/ARC/STG) for
rotation-free headers (CDELT or diagonal CD), LONPOLE = the standard's default (180, and 0 when CRVAL2 = +90) unless the header gives one.
Written from the paper; shares no code with AegeanTools or astropy.

pix2sky(header, p1, p2): p1 along NAXIS1 (column, 1-based), p2 along NAXIS2 (row, 1-based) -> (ra, dec) deg
sky2pix(header, ra, dec) -> (p1, p2)
"""
import numpy as np


def _params(h):
    ct = h["CTYPE1"].strip()
    proj = ct[-3:]
    cd1 = h["CDELT1"] if "CDELT1" in h else h["CD1_1"]
    cd2 = h["CDELT2"] if "CDELT2" in h else h["CD2_2"]
    return proj, float(h["CRPIX1"]), float(h["CRPIX2"]), float(cd1), float(cd2), float(h["CRVAL1"]), float(h["CRVAL2"])


def _colat_of_R(proj, R):
    """native co-latitude gamma = 90deg - theta from the zenithal radius (radians)"""
    if proj == "TAN":
        return np.arctan(R)
    # outside the domain of the projection (beyond the horizon / the antipode) there is no sky position: NaN
    if proj == "SIN":
        return np.where(R <= 1, np.arcsin(np.clip(R, -1, 1)), np.nan)
    if proj == "ARC":
        return np.where(R <= np.pi, R, np.nan)
    if proj == "ZEA":
        return np.where(R <= 2, 2 * np.arcsin(np.clip(R / 2, -1, 1)), np.nan)
    if proj == "STG":
        return 2 * np.arctan(R / 2)
    raise ValueError(proj)


def _R_of_colat(proj, g):
    if proj == "TAN":
        return np.tan(g)
    if proj == "SIN":
        return np.sin(g)
    if proj == "ARC":
        return g
    if proj == "ZEA":
        return 2 * np.sin(g / 2)
    if proj == "STG":
        return 2 * np.tan(g / 2)
    raise ValueError(proj)


def _lonpole(h, dec0):
    """native longitude of the celestial pole (rad): the header's LONPOLE, else the standard's default for zenithal projections
    (theta0 = 90): 0 when CRVAL2 >= 90, i.e. the reference point IS the north pole, else 180 deg (Paper II, section 2.2/2.5)"""
    if "LONPOLE" in h:
        return np.radians(float(h["LONPOLE"]))
    return 0.0 if dec0 >= 90.0 else np.pi


def pix2sky(h, p1, p2):
    proj, c1, c2, d1, d2, a0, dd0 = _params(h)
    x = np.radians(d1 * (np.asarray(p1, dtype=float) - c1))
    y = np.radians(d2 * (np.asarray(p2, dtype=float) - c2))
    R = np.hypot(x, y)
    phi = np.arctan2(x, -y)
    g = _colat_of_R(proj, R)
    d0 = np.radians(dd0)
    dphi = phi - _lonpole(h, dd0)  # phi - LONPOLE
    A = np.sin(g) * np.cos(dphi)   # cos(theta) cos(phi - phi_p)
    B = np.sin(g) * np.sin(dphi)   # cos(theta) sin(phi - phi_p)
    C = np.cos(g)                  # sin(theta)
    sdec = C * np.sin(d0) + A * np.cos(d0)
    cs = -B                        # cos(dec) sin(ra - ra0)
    cc = C * np.cos(d0) - A * np.sin(d0)  # cos(dec) cos(ra - ra0)
    dec = np.arctan2(sdec, np.hypot(cs, cc))
    ra = np.radians(a0) + np.arctan2(cs, cc)
    return np.degrees(ra) % 360.0, np.degrees(dec)


def sky2pix(h, ra, dec):
    proj, c1, c2, d1, d2, a0, dd0 = _params(h)
    a = np.radians(np.asarray(ra, dtype=float))
    d = np.radians(np.asarray(dec, dtype=float))
    a0 = np.radians(a0)
    d0 = np.radians(dd0)
    s = -np.cos(d) * np.sin(a - a0)                                         # cos(theta) sin(phi - phi_p)
    c = np.sin(d) * np.cos(d0) - np.cos(d) * np.sin(d0) * np.cos(a - a0)    # cos(theta) cos(phi - phi_p)
    st = np.sin(d) * np.sin(d0) + np.cos(d) * np.cos(d0) * np.cos(a - a0)   # sin(theta)
    phi = _lonpole(h, dd0) + np.arctan2(s, c)
    g = np.arctan2(np.hypot(s, c), st)
    R = _R_of_colat(proj, g)
    xr = R * np.sin(phi)
    yr = -R * np.cos(phi)
    if proj == "SIN" and ("PV2_1" in h or "PV2_2" in h):
        # slant orthographic (Paper II eq. 43, 44): x = cos(theta) sin(phi) + xi (1 - sin theta), y = -cos(theta) cos(phi) + eta (1 - sin theta)
        xr = xr + float(h.get("PV2_1", 0.0)) * (1 - st)
        yr = yr + float(h.get("PV2_2", 0.0)) * (1 - st)
    x = np.degrees(xr)
    y = np.degrees(yr)
    return x / d1 + c1, y / d2 + c2


def make_header(proj="SIN", crval=(180.0, -45.0), cdelt=10.0 / 3600, shape=(64, 64), crpix=None, beam=None,
                cd_matrix=False):
    """a plain dict header (rows, cols) = shape; cdelt in deg (RA axis negative)"""
    rows, cols = shape
    if crpix is None:
        crpix = (cols / 2.0 + 0.5, rows / 2.0 + 0.5)
    h = dict(SIMPLE=True, BITPIX=-32, NAXIS=2, NAXIS1=cols, NAXIS2=rows,
             CTYPE1="RA---" + proj, CTYPE2="DEC--" + proj, CRVAL1=float(crval[0]), CRVAL2=float(crval[1]),
             CRPIX1=float(crpix[0]), CRPIX2=float(crpix[1]), CUNIT1="deg", CUNIT2="deg", EQUINOX=2000.0)
    if cd_matrix:
        h.update(CD1_1=-abs(cdelt), CD2_2=abs(cdelt), CD1_2=0.0, CD2_1=0.0)
    else:
        h.update(CDELT1=-abs(cdelt), CDELT2=abs(cdelt))
    if beam is not None:
        h.update(BMAJ=float(beam[0]), BMIN=float(beam[1]), BPA=float(beam[2]))
    return h


def to_fits_header(h):
    from astropy.io import fits
    hdr = fits.Header()
    for k, v in h.items():
        if k in ("SIMPLE", "BITPIX", "NAXIS", "NAXIS1", "NAXIS2"):
            continue
        hdr[k] = v
    return hdr
