"""
Reference spherical geometry in np.longdouble, written from the textbook vector formulas.
Shares no code with AegeanTools.  All angles in degrees.
"""
import numpy as np

LD = np.longdouble
PI = LD(np.pi) if np.finfo(LD).eps > 1e-17 else LD("3.14159265358979323846264338327950288")
D2R = PI / LD(180)


def vec(ra, dec):
    ra = np.asarray(ra, dtype=LD) * D2R
    dec = np.asarray(dec, dtype=LD) * D2R
    return np.stack([np.cos(dec) * np.cos(ra), np.cos(dec) * np.sin(ra), np.sin(dec)], axis=-1)


def dist(ra1, dec1, ra2, dec2):
    """great-circle distance (deg) by atan2(|a x b|, a.b) - accurate at 0 and at 180"""
    a = vec(ra1, dec1)
    b = vec(ra2, dec2)
    c = np.cross(a, b)
    s = np.sqrt(np.sum(c * c, axis=-1))
    d = np.sum(a * b, axis=-1)
    return np.arctan2(s, d) / D2R


def bearing(ra1, dec1, ra2, dec2):
    """position angle of point 2 seen from point 1, East of North, in (-180, 180]"""
    l1, b1, l2, b2 = [np.asarray(v, dtype=LD) * D2R for v in (ra1, dec1, ra2, dec2)]
    dl = l2 - l1
    y = np.sin(dl) * np.cos(b2)
    x = np.cos(b1) * np.sin(b2) - np.sin(b1) * np.cos(b2) * np.cos(dl)
    return np.arctan2(y, x) / D2R


def destination(ra, dec, r, theta):
    """point at distance r (deg) along initial bearing theta (deg E of N) from (ra, dec).  Vector form: start p, local north n
    and east e (defined through the given ra also AT a pole, where they are the limit along that meridian), result
    cos(r) p + sin(r) (cos(theta) n + sin(theta) e).  No cancellation anywhere on the sphere."""
    l1, b1, rr, t = [np.asarray(v, dtype=LD) * D2R for v in (ra, dec, r, theta)]
    cl, sl, cb, sb = np.cos(l1), np.sin(l1), np.cos(b1), np.sin(b1)
    p = (cb * cl, cb * sl, sb)
    n = (-sb * cl, -sb * sl, cb)
    e = (-sl, cl, 0 * cl)
    q = [np.cos(rr) * p[i] + np.sin(rr) * (np.cos(t) * n[i] + np.sin(t) * e[i]) for i in range(3)]
    l2 = np.arctan2(q[1], q[0])
    b2 = np.arctan2(q[2], np.hypot(q[0], q[1]))
    return (l2 / D2R) % LD(360), b2 / D2R


def angdiff(a, b, period=360.0):
    """smallest absolute difference of two angles modulo period"""
    d = (np.asarray(a, dtype=LD) - np.asarray(b, dtype=LD)) % LD(period)
    return np.minimum(d, LD(period) - d)
