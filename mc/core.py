"""
E1 core: bounded-exhaustive enumeration driver, sharding, outcome bookkeeping,
known-findings matching, replay files and the evidence writer.

A check module (checks/cNN.py) provides

    PROPERTY = "C17"
    LEVEL    = "exploration" | "model_checking" | ...
    RULE     = "how cases are enumerated and what makes one non-trivial"
    def cases(tier, seed):            # deterministic generator of (clause, case)
    def evaluate(clause, case, ctx):  # runs the real code, calls ctx.violation / ctx.nontrivial / ...
    def axes(tier, seed) -> dict      # optional, the axis table for the evidence
    def finalize(ctx)                 # optional, runs once in the parent after the merge
    SHARDS = 16                       # optional, number of sub-processes (default 16)

`case` must be JSON-serialisable: it is what a replay file stores, and
`run_check.py CNN --replay file` simply calls evaluate(clause, case) again.
"""
import hashlib
import json
import os
import sys
import time
import traceback

VERIF = os.path.dirname(os.path.dirname(os.path.abspath(__file__)))
EVIDENCE_DIR = os.path.join(VERIF, "evidence")
REPLAY_DIR = os.path.join(VERIF, "replays")
KNOWN_FILE = os.path.join(VERIF, "known_findings.json")
MAX_SAMPLES = 6
MAX_VIOL_KEPT = 200


def jdefault(o):
    import numpy as np
    if isinstance(o, (np.integer,)):
        return int(o)
    if isinstance(o, (np.floating,)):
        return float(o)
    if isinstance(o, (np.bool_,)):
        return bool(o)
    if isinstance(o, np.ndarray):
        return o.tolist()
    if isinstance(o, (set, frozenset)):
        return sorted(o)
    if isinstance(o, bytes):
        return o.hex()
    return repr(o)


def jdump(o, **kw):
    return json.dumps(o, default=jdefault, sort_keys=True, **kw)


def hkey(o):
    return hashlib.sha1(jdump(o).encode()).hexdigest()[:16]


def seed_shift(seed, k=0, scale=1.0):
    """Deterministic irrational-ish offset in [0, scale) derived from the seed
    (seed 0 -> small fixed offsets, never exactly 0 so lattices avoid exact ties)."""
    phi = 0.6180339887498949
    v = ((seed + 1) * (k + 1) * phi + 0.137 * (k + 1)) % 1.0
    return v * scale


class Ctx(object):
    def __init__(self, prop, tier, seed, shard=(0, 1), level="exploration"):
        self.prop = prop
        self.tier = tier
        self.seed = seed
        self.shard = shard
        self.level = level
        self.evaluations = 0
        self.counters = {}
        self.nontrivial_keys = set()
        self.nontrivial_counted = 0
        self.outcomes = {}
        self.samples = []
        self.violations = []
        self.viol_count = 0
        self.notes = {}
        self.extra = {}
        self._cur = None
        self.harness_errors = []

    # ---- bookkeeping called by checks -------------------------------------
    def count(self, name, n=1):
        self.counters[name] = self.counters.get(name, 0) + n

    def nontrivial(self, key):
        """register a distinct canonical non-trivial case"""
        if not isinstance(key, str):
            key = hkey(key)
        self.nontrivial_keys.add(key)

    def nontrivial_n(self, n=1):
        """count non-trivial cases that are distinct by construction of the enumeration (each index visited once)"""
        self.nontrivial_counted += int(n)

    def outcome(self, cls, n=1):
        """register an observed outcome class (vacuity indicator)"""
        cls = str(cls)
        self.outcomes[cls] = self.outcomes.get(cls, 0) + n

    def sample(self, obj):
        if len(self.samples) < MAX_SAMPLES:
            self.samples.append(json.loads(jdump(obj)))

    def note_max(self, name, value):
        v = self.notes.get(name)
        value = float(value)
        if v is None or value > v:
            self.notes[name] = value

    def violation(self, what, signature, detail=None, clause=None, case=None):
        """what: one line; signature: structural identity used for known-finding matching
        and de-duplication (clause + minimal case description)"""
        clause = clause if clause is not None else (self._cur[0] if self._cur else "?")
        case = case if case is not None else (self._cur[1] if self._cur else None)
        self.viol_count += 1
        if len(self.violations) < MAX_VIOL_KEPT:
            self.violations.append(dict(clause=clause, case=json.loads(jdump(case)), what=str(what),
                                        signature=str(signature),
                                        detail=json.loads(jdump(detail)) if detail is not None else None))

    # ---- (de)serialisation of a shard result ------------------------------
    def dump(self):
        return dict(evaluations=self.evaluations, counters=self.counters,
                    nontrivial=sorted(self.nontrivial_keys), nontrivial_counted=self.nontrivial_counted, outcomes=self.outcomes,
                    samples=self.samples, violations=self.violations, viol_count=self.viol_count,
                    notes=self.notes, extra=self.extra, harness_errors=self.harness_errors)

    def merge(self, d):
        self.evaluations += d["evaluations"]
        for k, v in d["counters"].items():
            self.counters[k] = self.counters.get(k, 0) + v
        self.nontrivial_keys.update(d["nontrivial"])
        self.nontrivial_counted += d.get("nontrivial_counted", 0)
        for k, v in d["outcomes"].items():
            self.outcomes[k] = self.outcomes.get(k, 0) + v
        for s in d["samples"]:
            if len(self.samples) < MAX_SAMPLES:
                self.samples.append(s)
        self.violations.extend(d["violations"])
        self.viol_count += d["viol_count"]
        for k, v in d["notes"].items():
            self.note_max(k, v)
        for k, v in d.get("extra", {}).items():
            if isinstance(v, (int, float)) and isinstance(self.extra.get(k, 0), (int, float)):
                self.extra[k] = self.extra.get(k, 0) + v
            else:
                self.extra[k] = v
        self.harness_errors.extend(d.get("harness_errors", []))


def run_shard(mod, ctx):
    """enumerate this shard's cases and evaluate each on the real code"""
    i, n = ctx.shard
    for idx, (clause, case) in enumerate(mod.cases(ctx.tier, ctx.seed)):
        if idx % n != i:
            continue
        ctx._cur = (clause, case)
        before = len(ctx.violations)
        vc = ctx.viol_count
        try:
            mod.evaluate(clause, case, ctx)
        except Exception:
            ctx.harness_errors.append(dict(clause=clause, case=json.loads(jdump(case)),
                                           tb=traceback.format_exc()[-3000:]))
            continue
        ctx.evaluations += 1
        if idx < 3 * n and idx % n == i:
            ctx.sample(dict(clause=clause, case=case))
        if ctx.viol_count > vc and len(ctx.violations) > before:
            # determinism: the same case must fail the same way a second time
            probe = Ctx(ctx.prop, ctx.tier, ctx.seed, ctx.shard, ctx.level)
            probe._cur = (clause, case)
            try:
                mod.evaluate(clause, case, probe)
            except Exception:
                ctx.harness_errors.append(dict(clause=clause, case=json.loads(jdump(case)),
                                               tb="replay raised: " + traceback.format_exc()[-2000:]))
                continue
            a = sorted(v["signature"] for v in ctx.violations[before:])
            b = sorted(v["signature"] for v in probe.violations)
            truncated = (ctx.viol_count - vc) != len(a) or probe.viol_count != len(b)
            if (probe.viol_count != ctx.viol_count - vc) or (not truncated and a != b):
                ctx.harness_errors.append(dict(clause=clause, case=json.loads(jdump(case)),
                                               tb="non-deterministic verdict: %d %r vs %d %r" % (
                                                   ctx.viol_count - vc, a[:3], probe.viol_count, b[:3])))
    ctx._cur = None


# ---------------------------------------------------------------------------
def load_known():
    if not os.path.exists(KNOWN_FILE):
        return []
    with open(KNOWN_FILE) as f:
        return json.load(f).get("entries", [])


def match_known(prop, signature, entries):
    """a `known` entry matches when its signature equals the violation signature, or (entry has
    "prefix": true) is a prefix of it.  `fixed` entries never suppress anything."""
    for e in entries:
        if e.get("status") != "known" or e.get("property") != prop:
            continue
        s = e.get("signature", "")
        if signature == s or (e.get("prefix") and signature.startswith(s)):
            return e
    return None


def finish(mod, ctx, t0, extra_coverage=None, assumptions=None, exhaustive=True, rule=None):
    """parent side: write replays, evidence; print lines; return exit code"""
    prop = ctx.prop
    os.makedirs(EVIDENCE_DIR, exist_ok=True)
    entries = load_known()
    if ctx.harness_errors:
        for h in ctx.harness_errors[:5]:
            sys.stderr.write("HARNESS-ERROR property=%s clause=%s case=%s\n%s\n" % (
                prop, h.get("clause"), jdump(h.get("case"))[:400], h.get("tb")))
    # de-duplicate by signature
    by_sig = {}
    for v in ctx.violations:
        by_sig.setdefault(v["signature"], v)
    new, known = [], {}
    for sig, v in sorted(by_sig.items()):
        e = match_known(prop, sig, entries)
        if e is not None:
            known.setdefault(e.get("signature"), (e, v))
        else:
            new.append(v)
    for sig, (e, v) in sorted(known.items()):
        print("KNOWN-FINDING: property=%s %s" % (prop, e.get("what", sig)))
    replay_paths = []
    classes = {}
    for v in new:
        classes.setdefault(v["signature"].split("|")[0], []).append(v)
    if new:
        d = os.path.join(REPLAY_DIR, prop)
        os.makedirs(d, exist_ok=True)
        for cls, vs in sorted(classes.items()):
            print("violation class %s: %d distinct signature(s) kept" % (cls, len(vs)))
            for v in vs[:3]:
                p = os.path.join(d, hkey(v["signature"]) + ".json")
                with open(p, "w") as f:
                    f.write(jdump(dict(property=prop, **v), indent=1))
                replay_paths.append(p)
                print("VIOLATION property=%s replay=%s" % (prop, p))
                print("   clause=%s: %s" % (v["clause"], v["what"][:300]))
    cov = dict(evaluations=int(ctx.evaluations),
               distinct_nontrivial=len(ctx.nontrivial_keys) + ctx.nontrivial_counted,
               rule=rule or getattr(mod, "RULE", ""),
               samples=ctx.samples[:MAX_SAMPLES],
               exhaustive=bool(exhaustive),
               clause_counters=ctx.counters,
               outcome_classes=len(ctx.outcomes),
               outcomes=dict(sorted(ctx.outcomes.items(), key=lambda kv: -kv[1])[:40]),
               measured=ctx.notes,
               distinct_violation_signatures=len(by_sig),
               violation_classes={k: len(v) for k, v in classes.items()},
               known_findings_matched=len(known),
               harness_errors=len(ctx.harness_errors))
    if hasattr(mod, "axes"):
        try:
            cov["axes"] = json.loads(jdump(mod.axes(ctx.tier, ctx.seed)))
        except Exception as e:  # pragma: no cover
            cov["axes"] = "unavailable: %r" % (e,)
    cov.update(ctx.extra)
    if extra_coverage:
        cov.update(extra_coverage)
    ev = dict(property_id=prop, tier=ctx.tier, seed=int(ctx.seed), level=ctx.level, coverage=cov,
              assumptions=list(assumptions or getattr(mod, "ASSUMPTIONS", [])),
              wall_s=round(time.time() - t0, 2), violations=len(new))
    path = os.path.join(EVIDENCE_DIR, prop + ".json")
    with open(path, "w") as f:
        f.write(jdump(ev, indent=1))
    print("%s tier=%s seed=%d evaluations=%d distinct_nontrivial=%d outcome_classes=%d "
          "violations=%d known=%d wall=%.1fs" % (prop, ctx.tier, ctx.seed, ctx.evaluations,
                                                len(ctx.nontrivial_keys) + ctx.nontrivial_counted, len(ctx.outcomes), len(new),
                                                len(known), time.time() - t0))
    for k, v in sorted(ctx.counters.items()):
        print("   %-40s %d" % (k, v))
    if new:
        # VIOLATION lines are backed by a deterministic re-run on the real code and stand on their own
        if ctx.harness_errors:
            print("HARNESS-ERRORS: %d in addition (see stderr)" % len(ctx.harness_errors))
        return 1
    if ctx.harness_errors:
        print("HARNESS-ERRORS: %d (see stderr) - exit 2" % len(ctx.harness_errors))
        return 2
    return 0
