"""C06 BANE background/noise maps obey the estimator contract (E1: metamorphic + absolute, bounded-exhaustive)."""
import itertools
import os

import numpy as np
from astropy.io import fits

from AegeanTools import fits_tools
from checks import bane_e3 as E
from mc import core

PROPERTY = "C06"
LEVEL = "exploration"
SHARDS = 16
RULE = ("full product image archetype x shape x grid x box x cores x stripes x mask; for every configuration the "
        "identity run and the transformed runs (+1024, x-1, x-2, x0.5) are executed by the real filter_image (pool "
        "simulated in-process, default schedule) and compared; input kinds (3-D/4-D/BSCALE/compressed) differential "
        "against the plain 2-D run; a slice on real multiprocessing; non-trivial = non-constant image; distinct = "
        "distinct configuration")
ASSUMPTIONS = ["images live on a dyadic lattice (multiples of 2^-10, offsets/scales integer or powers of two) so that the "
               "transformed input is exactly representable and clip decisions cannot flip through rounding",
               "metamorphic equalities are required to 4 float32 ulp of the larger operand + 1e-6 of the noise level",
               "'farther than box/2 + grid from all blank pixels' is evaluated per axis (Chebyshev distance), the weakest reading",
               "stationary-noise clause: fixed enumerated realisations; |bkg-m| and |rms-s| within 6 standard errors of a "
               "corner box (box/2)^2 estimator, allowing the 1.4 % low bias of 3-sigma clipping",
               "rows, cols >= 4; the schedule-independence of the maps is C07's clause, so one schedule per configuration"]

SHAPES_Q = [(40, 32), (57, 23)]
SHAPES_T = [(40, 32), (57, 23), (96, 64)]
ARCH = ["constant", "noise", "gradient", "nanblock", "nanborder", "sources"]
TRANSFORMS = [("shift", 1024.0), ("scale", -1.0), ("scale", -2.0), ("scale", 0.5), ("scale", 2.0 ** -24), ("scale", 2.0 ** -34)]


def axes(tier, seed):
    return dict(archetypes=ARCH, shapes=SHAPES_Q if tier == "quick" else SHAPES_T, grid=[(4, 4), (7, 5), (1, 1)],
                box=["max(4,grid)", "3*grid"], cores=[1, 2, 3, 4], stripes=["None", 1, "cores", "cores+1", "2*cores"],
                mask=[True, False], transforms=TRANSFORMS, kinds=["3d", "4d", "bscale_float", "bscale_int16", "compressed"])


def cases(tier, seed):
    shapes = SHAPES_Q if tier == "quick" else SHAPES_T
    for arch, sh, grid, boxk, cores, mask in itertools.product(ARCH, range(len(shapes)), [(4, 4), (7, 5)], [0, 1], [1, 2, 3, 4], [True, False]):
        if tier == "quick" and cores == 3 and boxk == 0:
            continue
        yield "contract", dict(arch=arch, shape=list(shapes[sh]), grid=list(grid), boxk=boxk, cores=cores, mask=mask)
    for arch in ("noise", "nanblock"):
        for cores in (1, 2):
            yield "contract", dict(arch=arch, shape=[24, 20], grid=[1, 1], boxk=0, cores=cores, mask=True)
    for kind in ("3d", "4d", "bscale_float", "bscale_int16", "compressed"):
        for cores in (1, 3):
            yield "kinds", dict(kind=kind, cores=cores)
    # histories: ONE input path rewritten with another image (other scaling keywords, other shape) between calls of one process
    for first in range(len(HIST_FILES)):
        yield "history", dict(first=first)
    for real in range(6 if tier == "quick" else 24):
        yield "stationary", dict(realisation=real)
    for k in range(4 if tier == "quick" else 16):
        yield "real_mp", dict(k=k)
    for k in range(6):
        yield "cli", dict(k=k)


def make(arch, shape, real=0):
    rows, cols = shape
    rs = np.random.RandomState(4242 + real * 17 + rows)
    noise = np.round(rs.normal(0, 1, size=shape) * 1024) / 1024.0
    if arch == "constant":
        return np.full(shape, 3.25)
    img = noise.copy()
    if arch == "gradient":
        img += np.round((0.05 * np.arange(rows)[:, None] + 0.03 * np.arange(cols)[None, :]) * 1024) / 1024.0
    if arch == "sources":
        # bright compact sources: sigma clipping needs several rounds in the boxes that contain them
        rr, cc = np.mgrid[0:rows, 0:cols]
        for k in range(6):
            r0, c0 = (7 + 11 * k) % rows, (5 + 17 * k) % cols
            img += np.round(40.0 * np.exp(-((rr - r0) ** 2 + (cc - c0) ** 2) / 4.5) * 1024) / 1024.0
    if arch == "nanblock":
        img[rows // 3: rows // 3 + 5, cols // 4: cols // 4 + 6] = np.nan
        img[rows - 2, 1] = np.inf
    if arch == "nanborder":
        img[:3, :] = np.nan
        img[:, -2:] = np.nan
    return img


def write(path, data, **hdr):
    h = fits.PrimaryHDU(data=data)
    h.header["CDELT1"] = -0.01
    h.header["CDELT2"] = 0.01
    h.header["CRPIX1"] = 1.0
    h.header["CRPIX2"] = 1.0
    for k, v in hdr.items():
        h.header[k] = v
    h.writeto(path, overwrite=True)


def bane(path, grid, box, cores, nslice, mask, out_base=None, **kw):
    return E.filter_image_sim(path, out_base, step_size=tuple(grid), box_size=tuple(box), cores=cores, nslice=nslice, mask=mask, **kw)


def close32(a, b, scale_noise):
    a = np.asarray(a, dtype=np.float64)
    b = np.asarray(b, dtype=np.float64)
    if a.shape != b.shape:
        return False, np.inf
    na, nb = np.isnan(a), np.isnan(b)
    if not np.array_equal(na, nb):
        return False, np.inf
    tol = 4 * np.finfo(np.float32).eps * np.maximum(np.abs(a), np.abs(b)) + 1e-6 * scale_noise
    d = np.abs(a - b)
    d[na] = 0
    tol[na] = 1
    return bool(np.all(d <= tol)), float(np.max(d / tol))


def stripes_for(cores):
    return [None, 1, cores, cores + 1, 2 * cores]


def ev_contract(case, ctx):
    shape = tuple(case["shape"])
    grid = tuple(case["grid"])
    box = (max(4, grid[0]), max(4, grid[1])) if case["boxk"] == 0 else (3 * grid[0], 3 * grid[1])
    cores, mask, arch = case["cores"], case["mask"], case["arch"]
    d = os.environ["VERIF_SCRATCH"]
    img = make(arch, shape)
    f = os.path.join(d, "c06.fits")
    write(f, img)
    finite = np.isfinite(img)
    lo, hi = np.min(img[finite]), np.max(img[finite])
    for nslice in sorted(set(stripes_for(cores)), key=lambda x: (x is not None, x)):
        cfg = "%s,%dx%d,grid=%r,box=%r,cores=%d,stripes=%r,mask=%s" % (arch, shape[0], shape[1], grid, box, cores, nslice, mask)
        ctx.count("bane_config")
        st, r = bane(f, grid, box, cores, nslice, mask)
        if st != "ok" or r is None:
            ctx.violation("BANE did not return maps (%s): %s %r" % (cfg, st, r), "no_result|" + cfg)
            ctx.outcome(st)
            continue
        bkg, rms = r
        ctx.outcome("ok")
        if arch != "constant":
            ctx.nontrivial(cfg)
        if bkg.shape != shape or rms.shape != shape:
            ctx.violation("map shapes %r %r for image %r (%s)" % (bkg.shape, rms.shape, shape, cfg), "shape|" + cfg)
            continue
        fb, fr = np.isfinite(bkg), np.isfinite(rms)
        # ---- absolute clauses ------------------------------------------------------------------
        if arch == "constant":
            # noise = 0 up to rounding of the mean of equal numbers (a few float32 ulp of the constant)
            if not (np.all(bkg[fb] == np.float32(3.25)) and np.all(np.abs(rms[fr]) <= 4 * np.finfo(np.float32).eps * 3.25)
                    and fb.all() and fr.all()):
                ctx.violation("constant image 3.25 gives bkg in [%r, %r], rms max %r (%s)" % (
                    np.nanmin(bkg), np.nanmax(bkg), np.nanmax(rms), cfg), "constant|" + cfg)
        eps = 4 * np.finfo(np.float32).eps * max(abs(lo), abs(hi), 1)
        if np.any(bkg[fb] < lo - eps) or np.any(bkg[fb] > hi + eps):
            ctx.violation("background [%r, %r] leaves the range of the finite input pixels [%r, %r] (%s)" % (
                np.nanmin(bkg), np.nanmax(bkg), lo, hi, cfg), "bkg_range|" + cfg)
        if np.any(rms[fr] < 0) or np.any(rms[fr] > (hi - lo) + eps):
            ctx.violation("noise [%r, %r] outside [0, range=%r] (%s)" % (np.nanmin(rms), np.nanmax(rms), hi - lo, cfg), "rms_range|" + cfg)
        if mask:
            if np.any(fb[~finite]) or np.any(fr[~finite]):
                ctx.violation("a non-finite input pixel is finite in the maps (%s)" % cfg, "mask_blank|" + cfg)
            # Chebyshev-type distance per axis to the nearest blank pixel
            if (~finite).any():
                br, bc = np.where(~finite)
                rr, cc = np.mgrid[0:shape[0], 0:shape[1]]
                far = np.ones(shape, dtype=bool)
                lim_r, lim_c = box[0] / 2.0 + grid[0], box[1] / 2.0 + grid[1]
                for r0, c0 in zip(br, bc):
                    far &= (np.abs(rr - r0) > lim_r) | (np.abs(cc - c0) > lim_c)
            else:
                far = np.ones(shape, dtype=bool)
            if np.any(~fb[far]) or np.any(~fr[far]):
                w = np.argwhere(far & (~fb | ~fr))[0]
                ctx.violation("pixel (%d,%d) is blank in the maps although farther than box/2+grid from every blank input pixel (%s)" % (
                    w[0], w[1], cfg), "mask_far|" + cfg)
        elif finite.all() and not (fb.all() and fr.all()):
            ctx.violation("image without blank pixels gives maps with blank pixels (%s)" % cfg, "blank_out|" + cfg)
        # ---- metamorphic clauses -----------------------------------------------------------------
        for kind, val in TRANSFORMS:
            if arch == "constant" and kind == "scale" and val != -1.0:
                continue
            ctx.count("bane_transformed")
            img2 = img + val if kind == "shift" else img * val
            f2 = os.path.join(d, "c06t.fits")
            write(f2, img2)
            st2, r2 = bane(f2, grid, box, cores, nslice, mask)
            tsig = "%s%g|%s" % (kind, val, cfg)
            if st2 != "ok" or r2 is None:
                ctx.violation("BANE did not return maps for the transformed image (%s %g, %s): %s" % (kind, val, cfg, st2), "no_result_t|" + tsig)
                continue
            b2, r2m = r2
            if kind == "shift":
                eb, er = bkg.astype(np.float64) + val, rms.astype(np.float64)
            else:
                eb, er = bkg.astype(np.float64) * val, rms.astype(np.float64) * abs(val)
            ns = 1.0 if kind == "shift" else abs(val)       # noise level of the transformed image
            okb, wb = close32(b2, eb, ns)
            okr, wr = close32(r2m, er, ns)
            ctx.note_max("metamorphic_err_over_tol", max(wb if np.isfinite(wb) else 0, wr if np.isfinite(wr) else 0))
            if not okb:
                dd = np.nanmax(np.abs(b2.astype(np.float64) - eb)) if b2.shape == eb.shape else np.inf
                ctx.violation("background is not equivariant under %s %g: max deviation %.4g (%s)" % (kind, val, dd, cfg), "bkg_%s|%s" % (kind, tsig))
            if not okr:
                dd = np.nanmax(np.abs(r2m.astype(np.float64) - er)) if r2m.shape == er.shape else np.inf
                ctx.violation("noise is not %s under %s %g: max deviation %.4g (%s)" % (
                    "invariant" if kind == "shift" else "scaled by |k|", kind, val, dd, cfg), "rms_%s|%s" % (kind, tsig))


def ev_kinds(case, ctx):
    kind, cores = case["kind"], case["cores"]
    d = os.environ["VERIF_SCRATCH"]
    shape = (40, 32)
    grid, box = (4, 4), (12, 12)
    base = make("gradient", shape)
    f0 = os.path.join(d, "k0.fits")
    f1 = os.path.join(d, "k1.fits")
    cfg = "%s,cores=%d" % (kind, cores)
    ctx.count("kinds")
    ctx.nontrivial(cfg)
    runs = []
    filesets = []       # (out_base, reference run, compressed): the written files hold the physical maps too
    if kind in ("3d", "4d"):
        cube = np.stack([base + 8 * k for k in range(3)])
        write(f1, cube if kind == "3d" else cube[None])
        for ci in range(3):
            write(f0, cube[ci])
            runs.append((bane(f0, grid, box, cores, None, True), bane(f1, grid, box, cores, None, True, cube_index=ci), "slice %d" % ci))
        st, r = bane(f1, grid, box, cores, None, True, cube_index=7)
        if st == "ok" and r is not None:
            ctx.violation("cube_index beyond the cube was accepted (%s)" % cfg, "cube_index|" + cfg)
    elif kind == "bscale_float":
        write(f0, base * 0.5)
        write(f1, base.astype(np.float32))
        with fits.open(f1, mode="update", do_not_scale_image_data=True) as hl:
            hl[0].header["BSCALE"] = 0.5
        runs.append((bane(f0, grid, box, cores, None, True), bane(f1, grid, box, cores, None, True), "BSCALE=0.5 float32"))
        runs.append((runs[0][0], bane(f1, grid, box, cores, None, True, out_base=os.path.join(d, "outb")), "BSCALE=0.5 float32, maps also written to files"))
        filesets.append((os.path.join(d, "outb"), runs[0][0], False))
        runs.append((runs[0][0], bane(f1, grid, box, cores, None, True, out_base=os.path.join(d, "outbc"), compressed=True), "BSCALE=0.5 float32, compressed files"))
        filesets.append((os.path.join(d, "outbc"), runs[0][0], True))
    elif kind == "bscale_int16":
        raw = np.asarray(np.round(base * 64), dtype=np.int16)
        write(f0, raw * 0.25)
        fits.PrimaryHDU(data=raw).writeto(f1, overwrite=True)
        with fits.open(f1, mode="update", do_not_scale_image_data=True) as hl:
            hl[0].header["BSCALE"] = 0.25
            hl[0].header["CDELT1"] = -0.01
            hl[0].header["CDELT2"] = 0.01
        runs.append((bane(f0, grid, box, cores, None, True), bane(f1, grid, box, cores, None, True), "BSCALE=0.25 int16"))
        runs.append((runs[0][0], bane(f1, grid, box, cores, None, True, out_base=os.path.join(d, "outi")), "BSCALE=0.25 int16, maps also written to files"))
        filesets.append((os.path.join(d, "outi"), runs[0][0], False))
    elif kind == "compressed":
        write(f0, base)
        ob0, ob1 = os.path.join(d, "outp"), os.path.join(d, "outc")
        a = bane(f0, grid, box, cores, None, True, out_base=ob0, compressed=False)
        b = bane(f0, grid, box, cores, None, True, out_base=ob1, compressed=True)
        runs.append((a, b, "compressed output"))
        try:
            for sfx in ("bkg", "rms"):
                full = fits.getdata("%s_%s.fits" % (ob0, sfx))
                comp = fits_tools.expand("%s_%s.fits" % (ob1, sfx))[0].data
                if full.shape != shape or comp.shape != shape:
                    ctx.violation("written %s map has shape %r / expanded compressed %r" % (sfx, full.shape, comp.shape), "files_shape|" + cfg)
                elif not np.array_equal(full[::4, ::4], comp[::4, ::4]):
                    ctx.violation("compressed %s file differs from the plain file at the grid nodes" % sfx, "files_nodes|" + cfg)
                elif a[0] == "ok" and not np.array_equal(full, a[1][0 if sfx == "bkg" else 1]):
                    ctx.violation("written %s file differs from the returned map" % sfx, "files_value|" + cfg)
        except Exception as e:
            ctx.violation("output files unreadable: %r (%s)" % (e, cfg), "files_raise|" + cfg)
    for ob, (s0, r0), compressed in filesets:
        if s0 != "ok" or r0 is None:
            continue
        try:
            for k_, sfx in enumerate(("bkg", "rms")):
                fn = "%s_%s.fits" % (ob, sfx)
                got = np.array(fits_tools.expand(fn)[0].data if compressed else fits.getdata(fn), dtype=np.float64)
                if compressed:
                    okf = got.shape == r0[k_].shape and close32(got[::grid[0], ::grid[1]], r0[k_][::grid[0], ::grid[1]], 1.0)[0]
                else:
                    okf = got.shape == r0[k_].shape and close32(got, r0[k_], 1.0)[0]
                if not okf:
                    ctx.violation("%s file written for a BSCALE input does not hold the physical map (%s%s): file median %.6g, map median %.6g" % (
                        sfx, cfg, ", compressed" if compressed else "", float(np.nanmedian(got)), float(np.nanmedian(r0[k_]))), "bscale_file|%s,%s" % (cfg, sfx))
                os.remove(fn)
        except Exception as e:
            ctx.violation("files written for a BSCALE input are unreadable: %r (%s)" % (e, cfg), "bscale_file_raise|" + cfg)
    for (s0, r0), (s1, r1), what in runs:
        if s0 != "ok" or r0 is None:
            ctx.violation("plain 2-D reference run failed (%s): %s %r" % (cfg, s0, r0), "kinds_ref|" + cfg)
            continue
        if s1 != "ok" or r1 is None:
            ctx.violation("BANE failed on %s input (%s): %s %r" % (what, cfg, s1, r1), "kinds_raise|" + cfg)
            continue
        okb, _ = close32(r1[0], r0[0], 1.0)
        okr, _ = close32(r1[1], r0[1], 1.0)
        if not (okb and okr):
            ctx.violation("maps for %s differ from the equivalent plain 2-D run (%s): max dbkg %.4g drms %.4g" % (
                what, cfg, np.nanmax(np.abs(r1[0].astype(float) - r0[0])), np.nanmax(np.abs(r1[1].astype(float) - r0[1]))), "kinds_diff|" + cfg)


HIST_FILES = ["plain", "bscale_float", "bscale_int16", "other_shape", "cube"]


def _hist_write(kind, path):
    """(re)write `path`; returns the equivalent plain 2-D physical image and the extra keyword arguments of the call"""
    base = make("gradient", (40, 32))
    if kind == "plain":
        write(path, base)
        return base, {}
    if kind == "bscale_float":
        write(path, base.astype(np.float32))
        with fits.open(path, mode="update", do_not_scale_image_data=True) as hl:
            hl[0].header["BSCALE"] = 0.5
        return base.astype(np.float32) * 0.5, {}
    if kind == "bscale_int16":
        raw = np.asarray(np.round(base * 64), dtype=np.int16)
        fits.PrimaryHDU(data=raw).writeto(path, overwrite=True)
        with fits.open(path, mode="update", do_not_scale_image_data=True) as hl:
            hl[0].header["BSCALE"] = 0.25
            hl[0].header["CDELT1"] = -0.01
            hl[0].header["CDELT2"] = 0.01
        return raw * 0.25, {}
    if kind == "other_shape":
        other = make("gradient", (28, 44))
        write(path, other)
        return other, {}
    cube = np.stack([base + 8 * k for k in range(3)])
    write(path, cube)
    return cube[2], dict(cube_index=2)


def ev_history(case, ctx):
    d = os.environ["VERIF_SCRATCH"]
    grid, box = (4, 4), (12, 12)
    f = os.path.join(d, "hist.fits")
    fref = os.path.join(d, "hist_ref.fits")
    a = case["first"]
    refs = {}
    for b in range(len(HIST_FILES)):
        if b == a:
            continue
        for step, k in enumerate((a, b, a)):
            kind = HIST_FILES[k]
            cfg = "history:%s_then_%s,step=%d" % (HIST_FILES[a], HIST_FILES[b], step)
            ctx.count("history")
            ctx.nontrivial(cfg)
            phys, kw = _hist_write(kind, f)
            st, r = bane(f, grid, box, 2, None, True, **kw)
            if kind not in refs:
                write(fref, phys)
                refs[kind] = bane(fref, grid, box, 2, None, True)
            st0, r0 = refs[kind]
            if st0 != "ok" or r0 is None:
                ctx.violation("reference run failed (%s): %s" % (cfg, st0), "history_ref|" + cfg)
                continue
            if st != "ok" or r is None:
                ctx.violation("BANE failed on a rewritten input path (%s): %s %r" % (cfg, st, r), "history_raise|" + cfg)
                continue
            okb, _ = close32(r[0], r0[0], 1.0)
            okr, _ = close32(r[1], r0[1], 1.0)
            ctx.outcome("history:%s" % ("same" if okb and okr else "differs"))
            if not (okb and okr):
                ctx.violation("input path rewritten with a %s image: the maps differ from those of the same image under a fresh name "
                              "(shape %r vs %r, median background %.6g vs %.6g) (%s)" % (
                                  kind, np.shape(r[0]), np.shape(r0[0]), float(np.nanmedian(r[0])), float(np.nanmedian(r0[0])), cfg), "history|" + cfg)
    for p_ in (f, fref):
        if os.path.exists(p_):
            os.remove(p_)


def ev_stationary(case, ctx):
    k = case["realisation"]
    d = os.environ["VERIF_SCRATCH"]
    shape = (96, 80)
    m, s = [(0.0, 1.0), (5.0, 0.25), (-300.0, 12.0)][k % 3]
    rs = np.random.RandomState(90000 + k)       # fixed family, independent of VERIF_SEED
    img = m + s * rs.normal(0, 1, size=shape)
    f = os.path.join(d, "stat.fits")
    write(f, img)
    for grid, box, cores, nslice in [((4, 4), (24, 24), 1, None), ((6, 6), (18, 18), 3, 3), ((4, 4), (24, 24), 2, 5)]:
        ctx.count("stationary")
        cfg = "real=%d,m=%g,s=%g,grid=%r,box=%r,cores=%d,stripes=%r" % (k, m, s, grid, box, cores, nslice)
        ctx.nontrivial(cfg)
        st, r = bane(f, grid, box, cores, nslice, True)
        if st != "ok" or r is None:
            ctx.violation("BANE failed (%s): %s" % (cfg, st), "stationary_raise|" + cfg)
            continue
        bkg, rms = r
        n_eff = (box[0] // 2) * (box[1] // 2)
        se_m = s / np.sqrt(n_eff)
        se_s = s / np.sqrt(2 * n_eff)
        zb = np.max(np.abs(bkg - m)) / se_m
        zr = max(np.max(rms - s) / se_s, np.max(s * 0.986 - rms) / se_s)
        ctx.note_max("stationary_z_bkg", zb)
        ctx.note_max("stationary_z_rms", zr)
        if zb > 6:
            ctx.violation("background deviates from the true mean %g by %.2f standard errors (%s)" % (m, zb, cfg), "stationary_bkg|" + cfg)
        if zr > 6:
            ctx.violation("noise deviates from the true rms %g by %.2f standard errors (%s)" % (s, zr, cfg), "stationary_rms|" + cfg)


def ev_real_mp(case, ctx):
    """the same contract on REAL multiprocessing for a slice of configurations (own process group + watchdog)"""
    from checks import c07_real
    k = case["k"]
    d = os.environ["VERIF_SCRATCH"]
    shape = [(40, 32), (57, 23)][k % 2]
    cores, nslice = [(2, None), (3, 5), (4, 2), (2, 4)][k % 4]
    grid, box = [(4, 4), (7, 5)][(k // 4) % 2], (12, 15)
    arch = ["noise", "nanblock", "gradient", "nanborder"][(k // 2) % 4]
    img = make(arch, shape, real=k)
    f = os.path.join(d, "rmp.fits")
    write(f, img)
    cfg = "real_mp:%s,%dx%d,grid=%r,cores=%d,stripes=%r" % (arch, shape[0], shape[1], grid, cores, nslice)
    ctx.count("real_mp")
    ctx.nontrivial(cfg)
    inst = dict(file=f, shape=list(shape), grid=list(grid), box=list(box), cores=cores, nslice=nslice, mask=True)
    real = c07_real.run_real(inst, [], [], None, None, d, timeout=60)
    st, r = E.filter_image_sim(f, None, step_size=grid, box_size=box, cores=cores, nslice=nslice, mask=True)
    if real["outcome"] != "ok" or real["leaked"]:
        ctx.violation("real multiprocessing BANE run: %s %s leaked=%r (%s)" % (real["outcome"], real.get("detail"), real["leaked"], cfg), "real_mp_fail|" + cfg)
        return
    import hashlib
    dig = hashlib.sha1(r[0].tobytes() + r[1].tobytes()).hexdigest()[:16] if st == "ok" else None
    if dig != real["digest"]:
        ctx.violation("real multiprocessing maps differ from the in-process run (%s)" % cfg, "real_mp_digest|" + cfg)


def ev_cli(case, ctx):
    """the BANE command line (pool simulated in-process): options must reach filter_image unchanged and the written files must
    hold the maps the API returns"""
    import logging
    from AegeanTools import BANE as bane_mod
    from AegeanTools.CLI import BANE as cli
    from mc import sched as S
    k = case["k"]
    d = os.environ["VERIF_SCRATCH"]
    shape = [(48, 40), (40, 56)][k % 2]
    # (no blank pixels for the --compress case: linear interpolation next to a blank node is C15's business)
    img = make(["noise", "nanblock", "gradient"][k % 3] if k != 4 else "gradient", shape, real=50 + k)
    f = os.path.join(d, "cli.fits")
    write(f, img, BMAJ=0.03, BMIN=0.02, BPA=10.0)       # beam -> default grid of 4 x beam / pixel scale
    opts = [[], ["--grid", "4", "6", "--box", "12", "18"], ["--nomask"], ["--stripes", "3", "--cores", "2"], ["--compress"],
            ["--grid", "5", "5", "--box", "20", "10", "--stripes", "2", "--cores", "4", "--nomask"]][k]
    base = os.path.join(d, "cli_out")
    for sfx in ("bkg", "rms"):
        if os.path.exists("%s_%s.fits" % (base, sfx)):
            os.remove("%s_%s.fits" % (base, sfx))
    cfg = "cli:%s,%dx%d" % (" ".join(opts) or "defaults", shape[0], shape[1])
    ctx.count("cli")
    ctx.nontrivial(cfg)
    logging.disable(logging.CRITICAL)
    sch = S.Scheduler(())
    bane_mod.multiprocessing = S.FakeMultiprocessing(sch)
    bane_mod.SharedMemory = E.FakeSharedMemory
    E.FakeSharedMemory.registry = {}
    try:
        try:
            cli.main([f, "--out", base] + opts)
        except SystemExit:
            pass
        except Exception as e:
            ctx.violation("BANE CLI raised %r (%s)" % (e, cfg), "cli_raise|" + cfg)
            return
    finally:
        bane_mod.multiprocessing = E.REAL_MP
        bane_mod.SharedMemory = E.REAL_SHM
    # the same call through the API
    kw = dict(cores=None, nslice=None, mask=True)
    if "--grid" in opts:
        i = opts.index("--grid")
        kw["step_size"] = (int(opts[i + 1]), int(opts[i + 2]))
    if "--box" in opts:
        i = opts.index("--box")
        kw["box_size"] = (int(opts[i + 1]), int(opts[i + 2]))
    if "--stripes" in opts:
        kw["nslice"] = int(opts[opts.index("--stripes") + 1])
    if "--cores" in opts:
        kw["cores"] = int(opts[opts.index("--cores") + 1])
    if "--nomask" in opts:
        kw["mask"] = False
    st, r = E.filter_image_sim(f, None, **kw)
    if st != "ok" or r is None:
        ctx.violation("API reference run failed (%s): %s" % (cfg, st), "cli_ref|" + cfg)
        return
    for sfx, ref in (("bkg", r[0]), ("rms", r[1])):
        fn = "%s_%s.fits" % (base, sfx)
        if not os.path.exists(fn):
            ctx.violation("BANE CLI wrote no %s file (%s)" % (sfx, cfg), "cli_nofile|" + cfg)
            continue
        if "--compress" in opts:
            got = fits_tools.expand(fn)[0].data
            step = bane_mod.get_step_size(fits.getheader(f))[0]
            okv = got.shape == shape and np.array_equal(np.asarray(got)[::step, ::step], ref[::step, ::step], equal_nan=True)
        else:
            got = fits.getdata(fn)
            okv = got.shape == shape and np.array_equal(got, ref, equal_nan=True)
        ctx.outcome("cli:%s" % ("ok" if okv else "differs"))
        if not okv:
            ctx.violation("the %s file written by the BANE CLI differs from the map returned by filter_image with the same settings (%s)" % (sfx, cfg),
                          "cli_differs|%s,%s" % (sfx, cfg))


def evaluate(clause, case, ctx):
    if clause == "cli":
        return ev_cli(case, ctx)
    dict(contract=ev_contract, kinds=ev_kinds, stationary=ev_stationary, real_mp=ev_real_mp, history=ev_history)[clause](case, ctx)
