"""C13 Sign symmetry and polarity filters of the source finder (E1, bounded-exhaustive, metamorphic)."""
import itertools
import math
import os

import numpy as np

from checks import scenes
from mc import core
from mc.oracles import skygauss
from mc.oracles import wcs_zenithal as wz

PROPERTY = "C13"
LEVEL = "exploration"
SHARDS = 16
RULE = ("every sequence of length 1..2 (quick) / 1..3 (thorough) over an alphabet of nine source archetypes (isolated point "
        "source + / -, extended + / -, blend of two bright positive summits, blend of a bright and a 10 sigma negative "
        "summit, a + and a - source on neighbouring islands, a 5.5 sigma source, a 2 pixel island), the k-th letter placed "
        "on the k-th of three fixed, well separated slots of a 128x128 image, x {noise free, one (quick) / three "
        "(thorough) FIXED dyadic noise realisations} x {forced scalar rms/bkg, rms/bkg supplied as files with a smooth "
        "non-zero background}; every scene is run with all four (nopositive, nonegative) settings on the image I "
        "(background B) AND on the exactly negated image -I (background -B): eight real blind source-finding runs per "
        "case; non-trivial = the both-polarities catalogue of the scene has at least one component; distinct = distinct "
        "(sequence, noise, rms mode)")
ASSUMPTIONS = ["oracle = the metamorphic relations of the property statement only: (a) run(-I,-B) is run(I,B) with peak and "
               "integrated flux (and the reported background) negated, everything else equal; (b) positive-only and "
               "negative-only catalogues are sign-pure, disjoint and their union is the both-polarities catalogue; "
               "(c) excluding both polarities gives an empty catalogue",
               "all pixel values (sources, noise, background) are rounded to multiples of 2^-16 and are < 2 in modulus, so the "
               "float32 FITS files hold them exactly and image - background is exact: -I is the exact negative of I at "
               "every stage before the fit (verified: island pixels and initial parameters are exact mirrors)",
               "clause (a): components paired by sky position (nearest neighbour within 0.5 pixel, one to one, same count); "
               "flags, background (negated) and local_rms to 1e-6 relative; a fitted column (ra, dec, peak_flux, int_flux, a, "
               "b, pa) agrees when it differs by <= 1e-6 relative (pa 1e-4 deg) OR by <= 1e-3 of its reported standard "
               "error: the two fits start from mirror images only to float32 round-off (Aegean hands float32 amplitudes "
               "and bounds to lmfit, whose bound transform is then evaluated in float32) and a least-squares fit with "
               "ftol = 1.5e-8 only determines a parameter to about sqrt(ftol * npix) ~ 3e-4 standard errors; err_* columns "
               "agree to max(1e-6, 10 * T) relative, T <= 1e-3 being the largest displacement of a fitted column of that "
               "component in standard errors; the evidence records how many components needed the second alternative "
               "and the largest T",
               "island/source numbers compared as an order only; uuid, ra_str/dec_str, psf_* and residual_* columns are not "
               "compared in clause (a)",
               "clause (b) demands exact equality of every catalogue column except uuid (the three runs fit the same "
               "pixels in the same process; the filter is applied afterwards)",
               "the mixed-sign archetype keeps the two signs on separate islands (16 pixel separation); one island "
               "containing pixels of both signs is outside this check",
               "no claim between lattice points"]

SHAPE = (128, 128)
CD = 10.0 / 3600
BEAM_PX = (4.0, 3.0, 20.0)
SIGMA = 1.0 / 64
Q = 65536.0                      # every pixel value is a multiple of 1/Q
SLOTS = [(30.25, 32.5), (34.5, 94.25), (94.75, 62.0)]
ALPHABET = ["pos_point", "neg_point", "pos_ext", "neg_ext", "blend_pp", "blend_nn", "mixed", "faint", "tiny"]
NOISE_Q = ["none", "real0"]
NOISE_T = ["none", "real0", "real1", "real2"]
RMSMODES = ["forced", "files"]
PEDESTAL = 1.5 * SIGMA
POLARITIES = [(False, False), (False, True), (True, False), (True, True)]     # (nopositive, nonegative)
FITTED = [("ra", 1.0), ("dec", 1.0), ("peak_flux", -1.0), ("int_flux", -1.0), ("a", 1.0), ("b", 1.0), ("pa", 1.0)]   # column, sign under negation
ERR_FIELDS = ["err_ra", "err_dec", "err_peak_flux", "err_int_flux", "err_a", "err_b", "err_pa"]
EXACT_FIELDS = ["island", "source", "ra", "dec", "peak_flux", "int_flux", "a", "b", "pa", "flags", "err_ra", "err_dec",
                "err_peak_flux", "err_int_flux", "err_a", "err_b", "err_pa", "background", "local_rms", "psf_a", "psf_b", "psf_pa",
                "residual_mean", "residual_std", "ra_str", "dec_str"]
REL = 1e-6
PA_ABS = 1e-4
FIT_PREC = 2e-2      # convergence precision of the least-squares fit, in units of the reported standard error: lmfit stops at
                     # ftol = 1.5e-8, i.e. ~sqrt(2 ftol chi2) ~ 2e-3 sigma for a 100-pixel island with noise; measured <= 2.4e-3; 10x margin
ERR_SLOPE = 10.0     # reported errors may move by this many times the displacement (in sigma) of the fitted columns, relative


def max_len(tier):
    return 2 if tier == "quick" else 3


def axes(tier, seed):
    return dict(alphabet=ALPHABET, sequence_length=list(range(1, max_len(tier) + 1)), slots=SLOTS,
                noise=NOISE_Q if tier == "quick" else NOISE_T,
                rms_bkg=RMSMODES, polarity=[dict(nopositive=p, nonegative=n) for p, n in POLARITIES], image_sign=[+1, -1],
                docov="True for every sequence of length 1 and every 5th longer case, else False",
                sigma=SIGMA, pixel_quantum=1 / Q)


def cases(tier, seed):
    i = 0
    for n in range(1, max_len(tier) + 1):
        for seq in itertools.product(range(len(ALPHABET)), repeat=n):
            for noise, mode in itertools.product(NOISE_Q if tier == "quick" else NOISE_T, RMSMODES):
                yield "abc", dict(seq=[ALPHABET[k] for k in seq], noise=noise, rms=mode, docov=bool(n == 1 or i % 5 == 0))
                i += 1
            if n == 1 or (n == 2 and seq[0] < seq[1] and (seq[0] + seq[1]) % 3 == 0):
                # backgrounds of ONE sign (the negated twin has no positive background pixel): a constant pedestal given as
                # a number, and a smooth everywhere-positive map given as a file
                for noise, mode in itertools.product((NOISE_Q if tier == "quick" else NOISE_T)[:2], ["forced_pedestal", "files_positive"]):
                    yield "abc", dict(seq=[ALPHABET[k] for k in seq], noise=noise, rms=mode, docov=False)
    # island rows (doislandflux / --island) under negation: every column of every island row is mirrored like a component
    for seq in (["neg_point", "pos_ext"], ["neg_ext", "blend_nn"], ["blend_pp", "mixed"], ["tiny", "neg_point"], ["faint", "neg_ext"]):
        for noise in ("none", "real0"):
            yield "islandrows", dict(seq=seq, noise=noise, rms="files", docov=False)
    for k in range(6):
        yield "border", dict(k=k)
    for amp, spike, off in itertools.product((40.0, 25.0), (12.0, 8.0), ((0, 1), (1, 1), (1, 0))):
        yield "spike", dict(amp=amp, spike=spike, offset=list(off))
    # sources of opposite sign close enough to share ONE island (islands are found on |signal-to-noise|)
    for sep in (3.0, 4.0, 5.0, 6.0):
        for neg_peak in (-0.8, -1.25):
            yield "mixed_island", dict(sep=sep, neg_peak=neg_peak)
    # a faint companion (fitted amplitude between the flood and the seed level) on the wing of a bright source of the same sign
    for amp_sigma in (4.0, 4.2, 4.5, 4.8):
        for sep in (5.0, 5.5, 6.0):
            yield "faint_companion", dict(amp_sigma=amp_sigma, sep=sep)


def header():
    beam = (BEAM_PX[0] * CD, BEAM_PX[1] * CD, BEAM_PX[2])
    return wz.make_header("SIN", (150.0, -30.0), CD, SHAPE, beam=beam)


def build_scene(case, seed):
    """(I, B, rms): float64 arrays whose values are exact multiples of 1/Q"""
    hdr = header()
    d = core.seed_shift(seed, 30, 0.2)
    gauss = []
    img = np.zeros(SHAPE)
    for k, name in enumerate(case["seq"]):
        r, c = SLOTS[k][0] + d, SLOTS[k][1] + 2 * d
        sgn = -1.0 if name.startswith("neg") or name == "blend_nn" else 1.0
        pt = lambda rr, cc, peak: skygauss.source_at_pixel(hdr, rr, cc, peak, BEAM_PX[0], BEAM_PX[1], BEAM_PX[2])
        if name in ("pos_point", "neg_point"):
            gauss.append(pt(r, c, sgn))
        elif name in ("pos_ext", "neg_ext"):
            gauss.append(skygauss.source_at_pixel(hdr, r, c, sgn, 2.0 * BEAM_PX[0], 1.5 * BEAM_PX[1], 50.0))
        elif name == "blend_pp":          # two bright summits on one island
            gauss.append(pt(r - 1.0, c - 3.0, 1.0))
            gauss.append(pt(r + 1.5, c + 3.0, 0.7))
        elif name == "blend_nn":          # a bright and a 10 sigma summit on one island (run negated too, like every scene)
            gauss.append(pt(r - 1.0, c - 2.5, -1.0))
            gauss.append(pt(r + 1.0, c + 2.5, -10 * SIGMA))
        elif name == "mixed":
            gauss.append(pt(r, c - 8.0, 1.0))
            gauss.append(pt(r, c + 8.0, -0.8))
        elif name == "faint":
            gauss.append(pt(math.floor(r), math.floor(c), 5.5 * SIGMA))
        elif name == "tiny":
            rr, cc = int(math.floor(r)), int(math.floor(c))
            img[rr, cc] += 8 * SIGMA
            img[rr, cc + 1] += 6 * SIGMA
        else:
            raise ValueError(name)
    if gauss:
        img = img + skygauss.render(hdr, SHAPE, gauss)
    if case["noise"] != "none":
        rs = np.random.RandomState(1300 + int(case["noise"][4:]))
        noise = rs.normal(0, 1, size=SHAPE) * SIGMA
        img = img + np.round(noise * 1024) / 1024
    img = np.round(img * Q) / Q
    ii, jj = np.mgrid[0:SHAPE[0], 0:SHAPE[1]]
    if case["rms"] == "files":
        bkg = np.round((SIGMA * (0.75 * np.sin(ii / 37.0 + 0.3) * np.cos(jj / 29.0) + 0.5)) * 4096) / 4096
    elif case["rms"] == "files_positive":
        bkg = np.round((SIGMA * (0.75 * np.sin(ii / 37.0 + 0.3) * np.cos(jj / 29.0) + 1.5)) * 4096) / 4096
    elif case["rms"] == "forced_pedestal":
        bkg = np.full(SHAPE, PEDESTAL)
    else:
        bkg = np.zeros(SHAPE)
    rms = np.full(SHAPE, SIGMA)
    if case["rms"].startswith("files"):
        # a smoothly varying (+-25 %) noise map, exactly representable
        rms = np.round(SIGMA * (1.0 + 0.25 * np.sin(ii / 23.0 + 0.7) * np.cos(jj / 31.0)) * 65536) / 65536
    return hdr, img, bkg, rms


ISLAND_COLS = [("island", 1), ("components", 1), ("background", -1), ("local_rms", 1), ("ra", 1), ("dec", 1), ("peak_flux", -1), ("int_flux", -1),
               ("err_int_flux", 1), ("eta", 1), ("x_width", 1), ("y_width", 1), ("max_angular_size", 1), ("pa", 1), ("pixels", 1), ("area", 1),
               ("beam_area", 1), ("flags", 1), ("ra_str", 1), ("dec_str", 1)]


def ev_islandrows(case, ctx):
    from AegeanTools.models import IslandSource
    d = os.environ["VERIF_SCRATCH"]
    hdr, img, bkg, rms = build_scene(case, ctx.seed)
    sig = "islandrows:seq=%s,noise=%s" % ("+".join(case["seq"]), case["noise"])
    rows = {}
    files = []
    try:
        for sign in (1.0, -1.0):
            f = os.path.join(d, "c13i_%s.fits" % ("p" if sign > 0 else "n"))
            fb, fr = f.replace(".fits", "_bkg.fits"), f.replace(".fits", "_rms.fits")
            files.extend([f, fb, fr])
            scenes.write_image(f, hdr, sign * (img + bkg))
            scenes.write_image(fb, hdr, sign * bkg)
            scenes.write_image(fr, hdr, rms)
            ctx.count("islandrows")
            try:
                out = scenes.finder().find_sources_in_image(f, cores=1, innerclip=5, outerclip=4, nopositive=False, nonegative=False, docov=False,
                                                            doislandflux=True, bkgin=fb, rmsin=fr)
            except Exception as e:
                ctx.violation("finder with doislandflux raised %r (%s)" % (e, sig), "raise|" + sig)
                return
            rows[sign] = sorted([s for s in out if isinstance(s, IslandSource)], key=lambda s: s.island)
    finally:
        for f in files:
            if os.path.exists(f):
                os.remove(f)
    P, N = rows[1.0], rows[-1.0]
    ctx.outcome("islandrows_n=%d" % len(P))
    if P:
        ctx.nontrivial(sig)
    if len(P) != len(N):
        ctx.violation("%d island rows for the image, %d for the negated image (%s)" % (len(P), len(N), sig), "island_count|" + sig)
        return
    for a, b in zip(P, N):
        for col, sgn in ISLAND_COLS:
            x, y = getattr(a, col), getattr(b, col)
            if isinstance(x, str):
                okc = x == y
            else:
                okc = same(sgn * x, y) or abs(sgn * x - y) <= 1e-9 * max(abs(x), abs(y), 1e-300)
            if not okc:
                ctx.violation("island %d: column %s is %r for the image and %r for the negated image (expected %s) (%s)" % (
                    a.island, col, x, y, "the negative" if sgn < 0 else "the same", sig), "island_%s|%s" % (col, sig))


def run(path, kw, nopositive, nonegative, docov):
    sf = scenes.finder()
    out = sf.find_sources_in_image(path, cores=1, innerclip=5, outerclip=4, nopositive=nopositive, nonegative=nonegative,
                                   docov=docov, **kw)
    return [scenes.src_dict(s) for s in out]


def same(x, y):
    """exact equality, NaN equal to NaN"""
    if isinstance(x, float) or isinstance(y, float) or isinstance(x, np.floating) or isinstance(y, np.floating):
        try:
            if np.isnan(x) and np.isnan(y):
                return True
        except TypeError:
            pass
    return bool(x == y)


def key_exact(s):
    return tuple("nan" if (isinstance(s[k], (float, np.floating)) and np.isnan(s[k])) else
                 (float(s[k]) if isinstance(s[k], (float, np.floating, int, np.integer)) else s[k]) for k in EXACT_FIELDS)


def close(x, y, rel=REL):
    if x is None or y is None:
        return x is None and y is None
    x, y = float(x), float(y)
    if np.isnan(x) or np.isnan(y):
        return bool(np.isnan(x) and np.isnan(y))
    return abs(x - y) <= rel * max(abs(x), abs(y))


def pair_by_position(hdr, A, B):
    """one-to-one nearest neighbour pairing within 0.5 pixel; returns list of j for each i, or None and a reason"""
    if len(A) != len(B):
        return None, "component counts differ: %d vs %d" % (len(A), len(B))
    if not A:
        return [], ""
    D = np.array([[scenes.sky_sep_pix(hdr, a["ra"], a["dec"], b["ra"], b["dec"]) for b in B] for a in A])
    nn = [int(np.argmin(D[i])) for i in range(len(A))]
    if sorted(nn) != list(range(len(B))):
        return None, "nearest neighbours are not one-to-one: %r" % nn
    worst = max(D[i, nn[i]] for i in range(len(A)))
    if not worst <= 0.5:
        return None, "a component has no partner within 0.5 pixel (nearest %.3f pixel)" % worst
    return nn, ""


def brief(cat):
    return "[" + "; ".join("isl %s/%s (%.6f,%.6f) peak %.6g flags %s" % (s["island"], s["source"], s["ra"], s["dec"], s["peak_flux"],
                                                                     s["flags"]) for s in cat) + "]"


def clause_a(hdr, P, N, ctx, sig):
    """P = both-polarities catalogue of (I,B), N = of (-I,-B)"""
    ctx.count("a")
    nn, why = pair_by_position(hdr, P, N)
    if nn is None:
        ctx.violation("(a) catalogue of the negated image does not pair with the catalogue of the image: %s; image: %s negated: %s (%s)" % (
            why, brief(P), brief(N), sig), "a_pairing|" + sig)
        return
    for i, j in enumerate(nn):
        p, n = P[i], N[j]
        who = "component isl %s/%s at (%.6f, %.6f)" % (p["island"], p["source"], p["ra"], p["dec"])
        ctx.count("a_components")
        # fitted columns: 1e-6 relative (pa 1e-4 deg), or within the convergence precision of the fit (FIT_PREC reported
        # standard errors); T = the largest displacement of a fitted column in units of its reported standard error
        T = 0.0
        allowance = False
        # a (nearly) circular component has no position angle: with a reported err_pa above 20 deg neither pa nor err_pa carry
        # information and both are left out of the comparison
        pa_undetermined = min(float(p["err_pa"]), float(n["err_pa"])) > 20.0
        if pa_undetermined:
            ctx.count("a_components_with_undetermined_pa")
        for f, sgn in FITTED:
            if f == "pa" and pa_undetermined:
                continue
            x, y = float(p[f]), sgn * float(n[f])
            e = min(float(p["err_" + f]), float(n["err_" + f]))
            d = abs(x - y)
            strict = (d <= PA_ABS) if f == "pa" else (d <= REL * max(abs(x), abs(y)))
            t = d / e if e > 0 else (0.0 if d == 0 else np.inf)
            if np.isfinite(t):
                T = max(T, t)
            if strict:
                ctx.note_max("a_abs_pa" if f == "pa" else "a_rel_" + f, d if f == "pa" else (d / abs(x) if x != 0 else 0.0))
            elif t <= FIT_PREC:
                allowance = True
            else:
                ctx.violation("(a) %s of %s: image %r, negated image %r (expected %r; difference = %.3g reported standard errors) (%s)" % (
                    f, who, p[f], n[f], sgn * p[f], t, sig), "a_%s|%s" % (f, sig))
        ctx.note_max("a_displacement_in_sigma", T)
        if allowance:
            ctx.count("a_components_equal_only_to_fit_precision")
        # a component whose shape is unconstrained (reported error of an axis larger than the axis itself) comes from the
        # inverse of a numerically singular Fisher matrix (rcond ~ 1e-20): its error columns are only reproducible to a few
        # per cent, whatever the sign of the image
        unconstrained = any(float(q["err_" + f]) > abs(float(q[f])) for q in (p, n) for f in ("a", "b") if float(q["err_" + f]) > 0) \
            or max(float(p["err_pa"]), float(n["err_pa"])) > 5.0      # nearly circular: the orientation direction of the Fisher matrix is almost degenerate
        if unconstrained:
            ctx.count("a_components_with_unconstrained_shape")
        for f in ERR_FIELDS:
            if f == "err_pa" and pa_undetermined:
                continue
            x, y = float(p[f]), float(n[f])
            tol = max(REL, ERR_SLOPE * min(T, FIT_PREC), 5e-2 if unconstrained else 0.0)
            if not close(x, y, tol):
                ctx.violation("(a) %s of %s: image %r, negated image %r (expected equal; fitted columns moved by %.3g sigma) (%s)" % (
                    f, who, p[f], n[f], T, sig), "a_%s|%s" % (f, sig))
            elif x != 0 and close(x, y, REL):
                ctx.note_max("a_rel_" + f, abs(x - y) / abs(x))
        for f, sgn in (("background", -1.0), ("local_rms", 1.0)):
            if not close(p[f], sgn * n[f]):
                ctx.violation("(a) %s of %s: image %r, negated image %r (expected %r) (%s)" % (f, who, p[f], n[f], sgn * p[f], sig),
                              "a_%s|%s" % (f, sig))
        if p["flags"] != n["flags"]:
            ctx.violation("(a) flags of %s: image %r, negated image %r (expected equal) (%s)" % (who, p["flags"], n["flags"], sig),
                          "a_flags|" + sig)
        ctx.note_max("a_pos_px", scenes.sky_sep_pix(hdr, p["ra"], p["dec"], n["ra"], n["dec"]))
    # numbering as an order: sorting by (island, source) must give the same sequence of partners
    op = sorted(range(len(P)), key=lambda i: (P[i]["island"], P[i]["source"]))
    on = sorted(range(len(N)), key=lambda j: (N[j]["island"], N[j]["source"]))
    if [nn[i] for i in op] != on:
        ctx.violation("(a) island/source numbering orders the components differently: image %s negated %s (%s)" % (brief(P), brief(N), sig),
                      "a_order|" + sig)


def clause_b(both, pos, neg, ctx, sig, which):
    ctx.count("b")
    bad = [s for s in pos if not s["peak_flux"] > 0]
    if bad:
        ctx.violation("(b) positive-only catalogue (nopositive=False, nonegative=True) of %s contains %s (%s)" % (which, brief(bad), sig),
                      "b_sign_pos|" + sig)
    bad = [s for s in neg if not s["peak_flux"] < 0]
    if bad:
        ctx.violation("(b) negative-only catalogue (nopositive=True, nonegative=False) of %s contains %s (%s)" % (which, brief(bad), sig),
                      "b_sign_neg|" + sig)
    kp, kn, kb = [key_exact(s) for s in pos], [key_exact(s) for s in neg], [key_exact(s) for s in both]
    common = set(kp) & set(kn)
    if common:
        ctx.violation("(b) %d component(s) of %s are in the positive-only AND the negative-only catalogue (%s)" % (len(common), which, sig),
                      "b_disjoint|" + sig)
    if sorted(map(repr, kp + kn)) != sorted(map(repr, kb)):
        # describe the difference
        miss = [s for s, k in zip(both, kb) if k not in set(kp + kn)]
        extra = [s for s, k in zip(pos + neg, kp + kn) if k not in set(kb)]
        detail = ""
        if len(miss) == len(extra) == 1:
            detail = " differing columns: " + ", ".join("%s %r vs %r" % (f, miss[0][f], extra[0][f]) for f in EXACT_FIELDS
                                                        if not same(miss[0][f], extra[0][f]))
        ctx.violation("(b) positive-only + negative-only != both-polarities catalogue of %s: %d + %d vs %d components; only in both: %s; "
                      "only in the filtered ones: %s%s (%s)" % (which, len(pos), len(neg), len(both), brief(miss), brief(extra), detail, sig),
                      "b_union|" + sig)


def clause_c(none, ctx, sig, which):
    ctx.count("c")
    if len(none) != 0:
        ctx.violation("(c) nopositive=True, nonegative=True on %s returns %d component(s): %s (%s)" % (which, len(none), brief(none), sig),
                      "c_nonempty|" + sig)


def ev_mixed_island(case, ctx):
    """a +1.0 and a -0.8 beam-shaped source `sep` pixels apart on one row: one island with pixels of both signs"""
    d = os.environ["VERIF_SCRATCH"]
    hdr = header()
    sep = case["sep"]
    pt = lambda rr, cc, peak: skygauss.source_at_pixel(hdr, rr, cc, peak, 4.0, 3.0, 20.0)
    img = skygauss.render(hdr, SHAPE, [pt(60.25, 60.5 - sep / 2, 1.0), pt(60.25, 60.5 + sep / 2, case.get("neg_peak", -0.8))])
    img = np.round(img * Q) / Q
    sig = "sep=%g,neg=%g" % (sep, case.get("neg_peak", -0.8))
    res = {}
    for sign in (1.0, -1.0):
        f = os.path.join(d, "c13_mixed.fits")
        scenes.write_image(f, hdr, sign * img)
        try:
            cats = {}
            for nopos, noneg in POLARITIES:
                cats[(nopos, noneg)] = run(f, dict(rms=SIGMA, bkg=0.0), nopos, noneg, False)
            res[sign] = cats[(False, False)]
            # the polarity filters on an island that holds both signs
            which = "the mixed-sign island image" if sign > 0 else "the negated mixed-sign island image"
            clause_b(cats[(False, False)], cats[(False, True)], cats[(True, False)], ctx, "mixed_island," + sig, which)
            clause_c(cats[(True, True)], ctx, "mixed_island," + sig, which)
        except Exception as e:
            ctx.violation("finder raised %r on a mixed-sign island (%s)" % (e, sig), "raise_mixed|" + sig)
            return
        finally:
            os.remove(f)
    ctx.count("mixed_island")
    ctx.nontrivial("mixed:" + sig)
    P, N = res[1.0], res[-1.0]
    key = lambda c: sorted((round(s["ra"], 6), round(s["dec"], 6), round(abs(s["peak_flux"]), 4), 1 if s["peak_flux"] > 0 else -1) for s in c)
    mirror = [(a, b, c, -sg) for (a, b, c, sg) in key(N)]
    ctx.outcome("mixed_island:%d/%d" % (len(P), len(N)))
    if key(P) != sorted(mirror):
        ctx.violation("an island holding a +1.0 and a -0.8 source %g px apart: run(I) gives %s but run(-I) gives %s - not mirror images "
                      "(the negative half of a mixed-sign island is never catalogued)" % (sep, brief(P), brief(N)), "mixed_sign_island|" + sig)


def ev_spike(case, ctx):
    """a bright source with ONE pixel of the opposite sign next to its peak (a bad pixel, an undersampled +- pair): an extremum of
    each sign, 8-adjacent.  run(I) and run(-I) must be mirror images (count, positions to 0.05 px, fluxes to 1 %)"""
    d = os.environ["VERIF_SCRATCH"]
    hdr = header()
    amp, spike = case["amp"], case["spike"]
    dr, dc = case["offset"]
    img = skygauss.render(hdr, SHAPE, [skygauss.source_at_pixel(hdr, 60.0, 60.0, amp * SIGMA, 4.0, 3.0, 20.0),
                                       skygauss.source_at_pixel(hdr, 30.0, 90.0, 8 * SIGMA, 4.0, 3.0, 20.0)])
    img[60 + dr, 60 + dc] = -spike * SIGMA
    img = np.round(img * Q) / Q
    sig = "spike:amp=%g,spike=-%g,offset=(%d,%d)" % (amp, spike, dr, dc)
    res = {}
    f = os.path.join(d, "c13_spike.fits")
    for sign in (1.0, -1.0):
        scenes.write_image(f, hdr, sign * img)
        try:
            res[sign] = run(f, dict(rms=SIGMA, bkg=0.0), False, False, False)
        except Exception as e:
            ctx.violation("finder raised %r on a source with an opposite-sign pixel next to its peak (%s)" % (e, sig), "raise_spike|" + sig)
            return
        finally:
            if os.path.exists(f):
                os.remove(f)
    ctx.count("spike")
    ctx.nontrivial(sig)
    P, N = res[1.0], res[-1.0]
    ctx.outcome("spike:%d/%d" % (len(P), len(N)))
    ok = len(P) == len(N)
    if ok:
        cd = abs(hdr["CDELT2"])
        left = list(N)
        for a in P:
            m = [b for b in left if np.hypot((a["ra"] - b["ra"]) * np.cos(np.radians(a["dec"])), a["dec"] - b["dec"]) <= 0.05 * cd
                 and abs(a["peak_flux"] + b["peak_flux"]) <= 0.01 * abs(a["peak_flux"])]
            if not m:
                ok = False
                break
            left.remove(m[0])
    if not ok:
        ctx.violation("a +%g sigma source with a -%g sigma pixel next to its peak: run(I) gives %s but run(-I) gives %s - not mirror images" % (
            amp, spike, brief(P), brief(N)), "spike|" + sig)


def ev_border(case, ctx):
    """sources of both signs whose brightest pixel lies on the first / last row or column of the image: run(I) and run(-I) are
    mirror images (count, positions to 0.05 px, fluxes to 1 %)"""
    d = os.environ["VERIF_SCRATCH"]
    hdr = header()
    rows, cols = SHAPE
    k = case["k"]
    off = [0.0, 0.3, -0.3][k % 3]
    spots = [(0.0 + abs(off), 30.0 + 7 * k, 1.0), (rows - 1.0 - abs(off), 70.0 - 5 * k, -1.0), (40.0 + 6 * k, 0.0 + abs(off), -1.0),
             (85.0 - 4 * k, cols - 1.0 - abs(off), 1.0), (60.0, 60.0, 1.0), (30.0, 95.0, -1.0)]
    if k >= 3:
        spots = [(r, c, -sg) for r, c, sg in spots]
    img = skygauss.render(hdr, SHAPE, [skygauss.source_at_pixel(hdr, r, c, sg * (20 + 3 * j) * SIGMA, 4.0, 3.0, 20.0) for j, (r, c, sg) in enumerate(spots)])
    img = np.round(img * Q) / Q
    sig = "border:k=%d" % k
    res = {}
    f = os.path.join(d, "c13_border.fits")
    for sign in (1.0, -1.0):
        scenes.write_image(f, hdr, sign * img)
        try:
            res[sign] = run(f, dict(rms=SIGMA, bkg=0.0), False, False, False)
        except Exception as e:
            ctx.violation("finder raised %r on sources peaking on the image border (%s)" % (e, sig), "raise_border|" + sig)
            return
        finally:
            if os.path.exists(f):
                os.remove(f)
    ctx.count("border")
    ctx.nontrivial(sig)
    P, N = res[1.0], res[-1.0]
    ctx.outcome("border:%d/%d" % (len(P), len(N)))
    ok = len(P) == len(N)
    if ok:
        cd = abs(hdr["CDELT2"])
        left = list(N)
        for a in P:
            m = [b for b in left if np.hypot((a["ra"] - b["ra"]) * np.cos(np.radians(a["dec"])), a["dec"] - b["dec"]) <= 0.05 * cd
                 and abs(a["peak_flux"] + b["peak_flux"]) <= 0.01 * abs(a["peak_flux"])]
            if not m:
                ok = False
                break
            left.remove(m[0])
    if not ok:
        ctx.violation("sources of both signs peaking on the first / last row and column: run(I) gives %s but run(-I) gives %s - not mirror images" % (
            brief(P), brief(N)), "border|" + sig)
    npos, nneg = sum(s_["peak_flux"] > 0 for s_ in P), sum(s_["peak_flux"] < 0 for s_ in P)
    if (npos, nneg) != (3, 3):
        ctx.violation("six sources (three of each sign, four of them peaking on the image border): %d positive and %d negative components (%s)" % (npos, nneg, sig),
                      "border_count|" + sig)


def ev_faint_companion(case, ctx):
    """amplitude limits must be mirror images too: a companion of 4.0-4.8 sigma whose brightest pixel passes the seed level only
    thanks to the wing of its bright neighbour"""
    d = os.environ["VERIF_SCRATCH"]
    hdr = header()
    amp, sep = case["amp_sigma"] * SIGMA, case["sep"]
    pt = lambda rr, cc, peak: skygauss.source_at_pixel(hdr, rr, cc, peak, BEAM_PX[0], BEAM_PX[1], BEAM_PX[2])
    # a broad (FWHM 11.8 px) 20 sigma source: its wing is shallow enough for the companion to be a local maximum, and lifts the
    # companion's brightest pixel above the seed level
    broad = skygauss.source_at_pixel(hdr, 60.2, 60.4, 20 * SIGMA, 11.8, 11.8, 0.0)
    off = sep + 3.0
    img = skygauss.render(hdr, SHAPE, [broad, pt(60.2 + off, 60.4 + off, amp)])
    img = np.round(img * Q) / Q
    sig = "faint_companion:amp=%g,sep=%g" % (case["amp_sigma"], sep)
    res = {}
    for sign in (1.0, -1.0):
        f = os.path.join(d, "c13_faint.fits")
        scenes.write_image(f, hdr, sign * img)
        try:
            res[sign] = run(f, dict(rms=SIGMA, bkg=0.0), False, False, False)
        except Exception as e:
            ctx.violation("finder raised %r (%s)" % (e, sig), "raise_faint|" + sig)
            return
        finally:
            os.remove(f)
    ctx.count("faint_companion")
    P, N = res[1.0], res[-1.0]
    ctx.outcome("faint_companion:%d/%d" % (len(P), len(N)))
    if len(P) >= 2:
        ctx.nontrivial(sig)
        amps = sorted(abs(s["peak_flux"]) / SIGMA for s in P)
        ctx.note_max("faint_companion_min_amp_sigma_neg", -amps[0])
    clause_a(hdr, P, N, ctx, sig)


def evaluate(clause, case, ctx):
    if clause == "islandrows":
        return ev_islandrows(case, ctx)
    if clause == "spike":
        return ev_spike(case, ctx)
    if clause == "border":
        return ev_border(case, ctx)
    if clause == "mixed_island":
        return ev_mixed_island(case, ctx)
    if clause == "faint_companion":
        return ev_faint_companion(case, ctx)
    d = os.environ["VERIF_SCRATCH"]
    hdr, img, bkg, rms = build_scene(case, ctx.seed)
    sig = "seq=%s,noise=%s,rms=%s,docov=%s" % ("+".join(case["seq"]), case["noise"], case["rms"], case["docov"])
    files = []
    cats = {}
    try:
        for sign, tag in ((1.0, "image"), (-1.0, "negated image")):
            f = os.path.join(d, "c13_%s.fits" % ("p" if sign > 0 else "n"))
            files.append(f)
            scenes.write_image(f, hdr, sign * (img + bkg))
            if case["rms"].startswith("files"):
                fb, fr = f.replace(".fits", "_bkg.fits"), f.replace(".fits", "_rms.fits")
                files.extend([fb, fr])
                scenes.write_image(fb, hdr, sign * bkg)
                scenes.write_image(fr, hdr, rms)
                kw = dict(bkgin=fb, rmsin=fr)
            elif case["rms"] == "forced_pedestal":
                kw = dict(rms=SIGMA, bkg=sign * PEDESTAL)
            else:
                kw = dict(rms=SIGMA, bkg=0.0)
            for nopos, noneg in POLARITIES:
                try:
                    cats[(tag, nopos, noneg)] = run(f, kw, nopos, noneg, case["docov"])
                except Exception as e:
                    ctx.violation("finder raised %r on the %s with nopositive=%s nonegative=%s (%s)" % (e, tag, nopos, noneg, sig),
                                  "raise|" + sig)
                    return
    finally:
        for f in files:
            if os.path.exists(f):
                os.remove(f)
    P, N = cats[("image", False, False)], cats[("negated image", False, False)]
    npos, nneg = sum(s["peak_flux"] > 0 for s in P), sum(s["peak_flux"] < 0 for s in P)
    ctx.outcome("npos=%d,nneg=%d" % (npos, nneg))
    for s in P:
        ctx.outcome("flags=%d" % s["flags"])
    if P or N:
        ctx.nontrivial(sig)
    if npos and nneg:
        ctx.count("scenes_with_both_signs")
    clause_a(hdr, P, N, ctx, sig)
    for tag in ("image", "negated image"):
        clause_b(cats[(tag, False, False)], cats[(tag, False, True)], cats[(tag, True, False)], ctx, sig, "the " + tag)
        clause_c(cats[(tag, True, True)], ctx, sig, "the " + tag)
