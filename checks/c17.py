"""C17 Spherical geometry and sexagesimal primitives (E1, bounded-exhaustive)."""
import re
from fractions import Fraction

import itertools

import numpy as np

from AegeanTools import angle_tools as at
from mc import core
from mc.oracles import sphere

PROPERTY = "C17"
LEVEL = "exploration"
SHARDS = 16
RULE = ("all ordered pairs and all ordered triples of a 40-point set (poles, RA wrap, pairs at separations "
        "1e-9..1e-1 deg, near-antipodal pairs at 180-10^-k deg); translate on start x r x theta lattice; "
        "sexagesimal: every minute boundary of the format with sub-unit offsets in both signs plus a uniform "
        "lattice; a case is non-trivial when the two points are distinct / the angle is finite; distinct = "
        "distinct argument tuple")
ASSUMPTIONS = ["no claim between lattice points of continuous parameters",
               "bearing compared with the standard formula evaluated in extended precision, with a tolerance "
               "that grows as eps/sin(sep) because the formula itself is ill-conditioned for coincident and "
               "antipodal points; bearing from an exact pole is undefined and skipped",
               "translate: the result must lie within 1e-9 deg of the exact destination (2e-6 deg when the "
               "destination is within 0.1 deg of a pole, the arcsin conditioning of the documented formula); "
               "distance to the start within the same tolerance, initial bearing within tolerance/sin(r)"]


def points(seed, tier="quick"):
    s = core.seed_shift(seed, 0, 1.0)
    P = [(0.0, 90.0), (123.0, 90.0), (0.0, -90.0), (200.0, -90.0),
         (0.0, 0.0), (359.9999999, 0.0), (0.0, 45.0), (359.999, 45.0),
         (10.0 + s, 20.0), (123.4 + s, -45.6), (250.0, 60.0 + s), (300.0, -80.0), (45.0, 89.9), (45.0, -89.9),
         (180.0, 0.0), (90.0, 0.0), (270.0, 0.0), (0.001, 10.0), (359.999, -85.0), (180.0, -45.0),
         (80.0, 30.0), (260.0, -30.0)]
    for k in (1, 3, 5, 7, 9):
        P.append((80.0, 30.0 + 10.0 ** -k))
    for k in (2, 4, 6, 8):
        P.append((80.0 + 10.0 ** -k, 30.0))
    for k in range(1, 10):
        P.append((260.0, -30.0 + 10.0 ** -k))
    assert len(P) == 40, len(P)
    if tier != "quick":
        # thorough: 40 more letters - poles approached at 1e-k, the RA wrap from both sides at several declinations, the
        # equator from both sides, and a second seed-shifted general lattice
        for k in (2, 4, 6, 8):
            P.append((45.0, 90.0 - 10.0 ** -k))
            P.append((225.0, -90.0 + 10.0 ** -k))
        for dec in (-60.0, -1e-7, 1e-7, 60.0):
            P.append((1e-9, dec))
            P.append((360.0 - 1e-9, dec))
        for i in range(24):
            P.append(((15.0 * i + 7.5 + s) % 360.0, -82.5 + 7.0 * i + s / 2))
        assert len(P) == 80, len(P)
    return P


R_SET = [0.0, 1e-6, 1.0, 60.0, 179.0]
T_SET = [15.0 * i for i in range(24)]
R_SET_T = [0.0, 1e-9, 1e-6, 1e-3, 1.0, 60.0, 90.0, 120.0, 179.0]
T_SET_T = [5.0 * i for i in range(72)]


def rset(tier):
    return R_SET if tier == "quick" else R_SET_T


def tset(tier):
    return T_SET if tier == "quick" else T_SET_T
DMS_OFFS = [Fraction(0), Fraction(-1, 10 ** 9) / 3600, Fraction(-4, 1000) / 3600, Fraction(-6, 1000) / 3600,
            Fraction(4, 1000) / 3600, Fraction(-5, 1000) / 3600, Fraction(5, 1000) / 3600]


def axes(tier, seed):
    return dict(points=points(seed, tier), r=rset(tier), theta=tset(tier),
                dms_boundaries="every (deg, min) of 0..89 x 0..59 (+90:00), offsets %s arcsec, both signs"
                               % [float(o * 3600) for o in DMS_OFFS],
                hms_boundaries="every (hour, min) of 0..23 x 0..59, same offsets in seconds of time",
                lattice=100000 if tier == "quick" else 1000000)


def cases(tier, seed):
    n = len(points(seed, tier))
    for i in range(n):
        yield "gcd_pairs", dict(i=i)
    for i in range(n):
        yield "bear_pairs", dict(i=i)
    for i in range(n):
        yield "triangle", dict(i=i)
    for i in range(n):
        yield "translate", dict(i=i)
    for ra in (10.0, 0.0, 359.9, 123.456):
        yield "poledest", dict(ra=ra)
    for d in (0, 1, 9, 23, 45, 89):
        yield "spellings", dict(d=d)
    for fn in ("gcd", "bear", "translate"):
        for pattern in range(1, 16):
            yield "arrays", dict(fn=fn, pattern=pattern, k0=5)
    for d in range(0, 90):
        yield "dms_boundary", dict(d=d)
    for h in range(0, 24):
        yield "hms_boundary", dict(h=h)
    nb = 100 if tier == "quick" else 1000
    for b in range(nb):
        yield "sexa_lattice", dict(block=b, nblocks=nb)
    yield "nonfinite", dict()


# ---------------------------------------------------------------------------
DEG_EPS = 2.3e-16 * 180 / np.pi


def _bear_tol(sep):
    """conditioning of the position-angle formula in double precision (deg)"""
    s = abs(np.sin(np.radians(float(sep))))
    return 1e-9 + 64 * DEG_EPS / max(s, 1e-300)


def ev_gcd_pairs(case, ctx):
    P = points(ctx.seed, ctx.tier)
    i = case["i"]
    a = P[i]
    ras = np.array([p[0] for p in P])
    decs = np.array([p[1] for p in P])
    vec_res = at.gcd(a[0], a[1], ras, decs)
    for j, b in enumerate(P):
        ctx.count("gcd_pair")
        d = at.gcd(a[0], a[1], b[0], b[1])
        d2 = at.gcd(b[0], b[1], a[0], a[1])
        ref = float(sphere.dist(a[0], a[1], b[0], b[1]))
        sig = "pair(%r,%r)" % (a, b)
        if ref > 0:
            ctx.nontrivial("g%d,%d" % (i, j))
        ctx.outcome("sep~1e%d" % (int(np.floor(np.log10(ref))) if ref > 0 else -99))
        if not np.isfinite(d) or d < 0 or d > 180:
            ctx.violation("gcd%r->%r = %r outside [0,180]" % (a, b, d), "gcd_range|" + sig)
            continue
        if abs(d - d2) > 1e-12:
            ctx.violation("gcd not symmetric: %r vs %r" % (d, d2), "gcd_symmetric|" + sig)
        if i == j and d != 0:
            ctx.violation("gcd(p,p) = %r != 0 for p=%r" % (d, a), "gcd_identity|" + sig)
        if d == 0 and ref > 1e-9:
            ctx.violation("gcd = 0 for distinct points %r %r (ref %g)" % (a, b, ref), "gcd_zero_distinct|" + sig)
        ctx.note_max("gcd_vs_vector_deg", abs(d - ref))
        if abs(d - ref) > 1e-9:
            ctx.violation("gcd%r->%r = %.15g, vector formula %.15g (diff %.3g deg)" % (a, b, d, ref, d - ref),
                          "gcd_vector|" + sig)
        if not (vec_res[j] == d or abs(vec_res[j] - d) < 1e-13):
            ctx.violation("array call differs from scalar call: %r vs %r" % (vec_res[j], d), "gcd_array|" + sig)


def ev_bear_pairs(case, ctx):
    P = points(ctx.seed, ctx.tier)
    i = case["i"]
    a = P[i]
    if abs(a[1]) == 90:
        return
    ras = np.array([p[0] for p in P])
    decs = np.array([p[1] for p in P])
    vec_res = at.bear(a[0], a[1], ras, decs)
    for j, b in enumerate(P):
        ref_d = float(sphere.dist(a[0], a[1], b[0], b[1]))
        if ref_d == 0 or ref_d >= 180:
            continue
        ctx.count("bear_pair")
        ctx.nontrivial("b%d,%d" % (i, j))
        got = at.bear(a[0], a[1], b[0], b[1])
        ref = float(sphere.bearing(a[0], a[1], b[0], b[1]))
        tol = _bear_tol(ref_d)
        err = float(sphere.angdiff(got, ref))
        ctx.note_max("bear_err_over_tol", err / tol)
        sig = "pair(%r,%r)" % (a, b)
        if not np.isfinite(got) or err > tol:
            ctx.violation("bear%r->%r = %.12g, reference %.12g (tol %.3g)" % (a, b, got, ref, tol), "bear|" + sig)
        if not (vec_res[j] == got or abs(vec_res[j] - got) < 1e-12):
            ctx.violation("array call differs from scalar: %r vs %r" % (vec_res[j], got), "bear_array|" + sig)


def ev_triangle(case, ctx):
    P = points(ctx.seed, ctx.tier)
    i = case["i"]
    ras = np.array([p[0] for p in P])
    decs = np.array([p[1] for p in P])
    a = P[i]
    dab = at.gcd(a[0], a[1], ras, decs)            # a -> b
    dbc = at.gcd(ras[:, None], decs[:, None], ras[None, :], decs[None, :])  # b -> c
    lhs = dab[None, :]                               # a -> c
    rhs = dab[:, None] + dbc
    bad = np.argwhere(lhs > rhs + 1e-9)
    ctx.count("triangle_triple", dbc.size)
    for b in range(len(P)):
        ctx.nontrivial("t%d,%d" % (i, b))
    for (b, c) in bad[:5]:
        ctx.violation("triangle inequality: d(a,c)=%.12g > d(a,b)+d(b,c)=%.12g for a=%r b=%r c=%r" % (
            lhs[0, c], rhs[b, c], a, P[b], P[c]), "triangle|(%r,%r,%r)" % (a, P[b], P[c]))


def ev_arrays(case, ctx):
    """every function with float ndarray arguments in every argument position: same answers as the scalar calls, the
    caller's arrays are left untouched, and a second call with the same arrays gives the same answer"""
    P = [p for p in points(ctx.seed, ctx.tier) if abs(p[1]) < 89.9]
    ra = np.array([p[0] for p in P], dtype=np.float64)
    dec = np.array([p[1] for p in P], dtype=np.float64)
    n = len(P)
    ra2, dec2 = np.roll(ra, 7), np.roll(dec, 7)
    r = np.array([R_SET[k % len(R_SET)] for k in range(n)], dtype=np.float64)
    th = np.array([T_SET[(3 * k) % len(T_SET)] + 11.0 for k in range(n)], dtype=np.float64)
    fn = case["fn"]
    pattern = case["pattern"]       # which arguments are arrays (bit mask over the four arguments)
    full = dict(gcd=(ra, dec, ra2, dec2), bear=(ra, dec, ra2, dec2), translate=(ra, dec, r, th))[fn]
    f = getattr(at, fn)
    k0 = case["k0"]
    args = [np.array(a_, copy=True) if (pattern >> j) & 1 else float(a_[k0]) for j, a_ in enumerate(full)]
    keep = [np.array(a_, copy=True) if isinstance(a_, np.ndarray) else a_ for a_ in args]
    sig = "arrays:%s,pattern=%s,k0=%d" % (fn, format(pattern, "04b"), k0)
    ctx.count("array_call")
    ctx.nontrivial(sig)
    try:
        out1 = f(*args)
        changed = [j for j, (a_, b_) in enumerate(zip(args, keep)) if isinstance(a_, np.ndarray) and not np.array_equal(a_, b_)]
        out2 = f(*args)
    except Exception as e:
        ctx.violation("%s with array arguments %s raised %r" % (fn, format(pattern, "04b"), e), "array_raise|" + sig)
        return
    if changed:
        ctx.violation("%s changed its caller's array argument(s) %r in place (largest change %.6g)" % (
            fn, changed, max(float(np.max(np.abs(args[j] - keep[j]))) for j in changed)), "array_mutated|" + sig)
    o1 = [np.asarray(o, dtype=float) for o in (out1 if isinstance(out1, tuple) else (out1,))]
    o2 = [np.asarray(o, dtype=float) for o in (out2 if isinstance(out2, tuple) else (out2,))]
    if any(not np.array_equal(a_, b_, equal_nan=True) for a_, b_ in zip(o1, o2)) and not changed:
        ctx.violation("%s: a second call with the same arrays gives another answer" % fn, "array_repeat|" + sig)
    # element by element against scalar calls on the ORIGINAL values
    bad = 0
    for k in range(n):
        sargs = [float(b_[k]) if isinstance(b_, np.ndarray) else b_ for b_ in keep]
        ref = f(*sargs)
        ref = [float(x) for x in (ref if isinstance(ref, tuple) else (ref,))]
        for o, rv in zip(o1, ref):
            got = float(o[k]) if o.ndim else float(o)
            if not (got == rv or abs(got - rv) < 1e-12 or (got != got and rv != rv)):
                bad += 1
    if bad:
        ctx.violation("%s: array call differs from the scalar calls in %d elements" % (fn, bad), "array_vs_scalar|" + sig)
    ctx.outcome("arrays:%s" % ("ok" if not (bad or changed) else "bad"))


def ev_translate(case, ctx):
    P = points(ctx.seed, ctx.tier)
    a = P[case["i"]]
    # starts AT a pole are included: the bearing is then counted from the meridian of the given right ascension (the limit of
    # the definition along that meridian), which is what the pixel-beam computation of an image centred on a pole relies on
    for r in rset(ctx.tier):
        th = np.array(tset(ctx.tier)) + core.seed_shift(ctx.seed, 3, 15.0)
        ra_v, dec_v = at.translate(a[0], a[1], r, th)
        for k, t in enumerate(th):
            ctx.count("translate")
            ra2, dec2 = at.translate(a[0], a[1], r, float(t))
            sig = "start%r r=%r t=%r" % (a, r, round(float(t), 6))
            if not (np.isfinite(ra2) and np.isfinite(dec2)) or abs(dec2) > 90:
                ctx.violation("translate returned %r,%r" % (ra2, dec2), "translate_finite|" + sig)
                continue
            if abs(ra_v[k] - ra2) > 1e-12 or abs(dec_v[k] - dec2) > 1e-12:
                ctx.violation("array call differs from scalar", "translate_array|" + sig)
            # position tolerance of the result: 1e-9 deg, relaxed where the documented arcsin formula is
            # ill-conditioned (destination within 0.1 deg of a pole: sqrt(eps) ~ 1e-6 deg at the pole itself)
            near_pole = abs(dec2) > 89.9
            ptol = 2e-6 if near_pole else 1e-9
            rr, dd = sphere.destination(a[0], a[1], r, float(t))
            perr = float(sphere.dist(ra2, dec2, rr, dd))
            ctx.note_max("translate_pos_err_%s" % ("pole" if near_pole else "plain"), perr)
            if perr > ptol:
                ctx.violation("translate %r by r=%g t=%g gives (%.12g, %.12g), reference (%.12g, %.12g)" % (
                    a, r, t, ra2, dec2, float(rr), float(dd)), "translate_pos|" + sig)
            d = float(sphere.dist(a[0], a[1], ra2, dec2))
            if abs(d - r) > ptol:
                ctx.violation("translate %r by r=%g t=%g lands at distance %.12g" % (a, r, t, d),
                              "translate_dist|" + sig)
            if r > 0:
                ctx.nontrivial("tr%d,%g,%d" % (case["i"], r, k))
                b = float(sphere.bearing(a[0], a[1], ra2, dec2))
                err = float(sphere.angdiff(b, t))
                # a position error of ptol subtends ptol/sin(r) as seen from the start
                tolb = 1e-9 + ptol / abs(np.sin(np.radians(r)))
                ctx.note_max("translate_bear_err_over_tol", err / tolb)
                if err > tolb:
                    ctx.violation("translate %r by r=%g t=%g: initial bearing to result is %.10g" % (a, r, t, b),
                                  "translate_bearing|" + sig)


DMS_RE = re.compile(r"^([+-])(\d\d):(\d\d):(\d\d\.\d\d)$")
HMS_RE = re.compile(r"^(\d\d):(\d\d):(\d\d\.\d\d)$")
HALF_DMS = 0.005 / 3600 * (1 + 1e-6) + 1e-8 / 3600
HALF_HMS = 0.005 * 15 / 3600 * (1 + 1e-6) + 1e-8 / 3600


def check_dms(x, ctx):
    """x float in [-90, 90]"""
    ctx.count("dms")
    s = at.dec2dms(x)
    sig = "dms|x=%r" % (x,)
    m = DMS_RE.match(s)
    if not m:
        ctx.violation("dec2dms(%r) = %r is malformed" % (x, s), "dms_format|x=%r" % x)
        return
    d, mi, se = int(m.group(2)), int(m.group(3)), float(m.group(4))
    ctx.outcome("dms_sec60" if se >= 60 else "dms_ok")
    if mi >= 60 or se >= 60 or d > 90 or (d == 90 and (mi > 0 or se > 0)):
        ctx.violation("dec2dms(%r) = %r has a field out of range" % (x, s), "dms_field_range|x=%r" % x)
    back = at.dec2dec(s)
    if abs(back - x) > HALF_DMS:
        ctx.violation("dec2dec(dec2dms(%r)=%r) = %r differs by %.3g arcsec" % (x, s, back, (back - x) * 3600), sig)


def check_hms(x, ctx):
    """x float in [0, 360)"""
    ctx.count("hms")
    s = at.dec2hms(x)
    m = HMS_RE.match(s)
    if not m:
        ctx.violation("dec2hms(%r) = %r is malformed" % (x, s), "hms_format|x=%r" % x)
        return
    h, mi, se = int(m.group(1)), int(m.group(2)), float(m.group(3))
    ctx.outcome("hms_sec60" if se >= 60 else "hms_ok")
    if h >= 24 or mi >= 60 or se >= 60:
        ctx.violation("dec2hms(%r) = %r has a field out of range" % (x, s), "hms_field_range|x=%r" % x)
    back = at.ra2dec(s)
    err = float(sphere.angdiff(back, x))
    if err > HALF_HMS:
        ctx.violation("ra2dec(dec2hms(%r)=%r) = %r differs by %.3g s" % (x, s, back, err * 240), "hms|x=%r" % x)


def exact_dms(fr):
    """exact reference formatting of a Fraction (degrees) -> +DD:MM:SS.SS (round half even, with carry)"""
    sign = "-" if fr < 0 else "+"
    fr = abs(fr)
    hund = fr * 3600 * 100
    n = int(hund)
    rem = hund - n
    if rem > Fraction(1, 2) or (rem == Fraction(1, 2) and n % 2 == 1):
        n += 1
    d, rest = divmod(n, 360000)
    mi, cs = divmod(rest, 6000)
    return "%s%02d:%02d:%02d.%02d" % (sign, d, mi, cs // 100, cs % 100), Fraction(n, 360000) * (-1 if sign == "-" else 1)


def ev_poledest(case, ctx):
    """translations whose destination is exactly a celestial pole (start at dec d, distance 90 - d due north / 90 + d due south):
    the result is the pole (to the 2e-6 deg the documented arcsin form allows there), never NaN"""
    ra = case["ra"]
    for d in (82.0, 8.0, 60.0, 0.5, 45.0, 89.0, 30.0, 0.0, -20.0, -75.5):
        for pole, r, t in ((90.0, 90.0 - d, 0.0), (-90.0, 90.0 + d, 180.0), (90.0, 90.0 - d, 360.0), (-90.0, 90.0 + d, -180.0)):
            if not 0 < r < 180:
                continue
            ctx.count("poledest")
            sig = "poledest:start=(%g,%g),r=%g,t=%g" % (ra, d, r, t)
            ctx.nontrivial(sig)
            try:
                ra2, dec2 = at.translate(ra, d, r, t)
                rav, decv = at.translate(np.array([ra, ra]), np.array([d, d]), np.array([r, r]), np.array([t, t]))
            except Exception as e:
                ctx.violation("translate(%g, %g, %g, %g) raised %r" % (ra, d, r, t, e), "poledest_raise|" + sig)
                continue
            if not (np.isfinite(ra2) and np.isfinite(dec2) and np.all(np.isfinite(rav)) and np.all(np.isfinite(decv))):
                ctx.violation("translate(%g, %g, %g, %g) = (%r, %r): the destination is the pole, the result is not finite" % (ra, d, r, t, ra2, dec2), "poledest_nan|" + sig)
                continue
            if not (abs(dec2 - pole) <= 2e-6 and abs(decv[0] - pole) <= 2e-6):
                ctx.violation("translate(%g, %g, %g, %g) lands at dec %.9g, the destination is the pole at %+g" % (ra, d, r, t, dec2, pole), "poledest|" + sig)
    ctx.outcome("poledest")


def ev_spellings(case, ctx):
    """the documented input format is `[+- ]dd:mm[:ss.s]`, colons or white space: every spelling of every whole-arcminute
    angle of one degree (sign, separators, optional seconds field, explicit plus) parses to the same exact value"""
    d = case["d"]
    for mi in range(60):
        for sgn in (1, -1):
            if sgn == -1 and d == 0 and mi == 0:
                continue
            exact = sgn * (Fraction(d) + Fraction(mi, 60))
            signs = ["", "+"] if sgn == 1 else ["-"]
            for sg, sep, secs in itertools.product(signs, [":", " ", "  ", "\t"], ["", "00", "00.0", "0.00"]):
                txt = "%s%02d%s%02d" % (sg, d, sep, mi) + ((sep + secs) if secs else "")
                ctx.count("spelling")
                ctx.nontrivial("sp" + txt)
                for fn, scale, nm in ((at.dec2dec, 1, "dec2dec"), (at.ra2dec, 15, "ra2dec")):
                    if nm == "ra2dec" and d >= 24:
                        continue
                    try:
                        got = fn(txt)
                    except Exception as e:
                        ctx.violation("%s(%r) raised %r" % (nm, txt, e), "spelling_raise|%s,%s" % (nm, txt))
                        continue
                    if not abs(got - float(exact * scale)) <= 1e-11 * scale:
                        ctx.violation("%s(%r) = %r, exact value %r" % (nm, txt, got, float(exact * scale)), "spelling|%s,%s" % (nm, txt))


def ev_dms_boundary(case, ctx):
    d = case["d"]
    for mi in range(60):
        base = Fraction(d) + Fraction(mi + 1, 60)  # boundary at the END of minute mi (d:mi+1:00 / d+1:00:00)
        for off in DMS_OFFS:
            for sgn in (1, -1):
                fr = sgn * (base + off)
                x = float(fr)
                if abs(x) > 90:
                    continue
                ctx.nontrivial("dms%r" % x)
                check_dms(x, ctx)
                # parsing of an exactly formatted reference string
                ref_s, ref_v = exact_dms(Fraction(x))
                ctx.count("parse_exact")
                if abs(at.dec2dec(ref_s) - float(ref_v)) > 1e-11:
                    ctx.violation("dec2dec(%r) = %r, exact %r" % (ref_s, at.dec2dec(ref_s), float(ref_v)),
                                  "dec2dec_parse|%s" % ref_s)


def ev_hms_boundary(case, ctx):
    h = case["h"]
    for mi in range(60):
        base = (Fraction(h) + Fraction(mi + 1, 60)) * 15
        for off in DMS_OFFS:
            fr = base + off * 15
            x = float(fr)
            if x >= 360:
                continue
            ctx.nontrivial("hms%r" % x)
            check_hms(x, ctx)
            ref_s, ref_v = exact_dms(Fraction(x) / 15)
            ctx.count("parse_exact")
            if abs(at.ra2dec(ref_s[1:]) - float(ref_v * 15)) > 1e-10:
                ctx.violation("ra2dec(%r) = %r, exact %r" % (ref_s[1:], at.ra2dec(ref_s[1:]), float(ref_v * 15)),
                              "ra2dec_parse|%s" % ref_s[1:])
    if h == 0:
        # negative RA is documented to wrap
        for x in (-1e-9, -0.5, -15.0, -359.99):
            s = at.dec2hms(x)
            ctx.count("hms_negative")
            m = HMS_RE.match(s)
            if not m or float(sphere.angdiff(at.ra2dec(s), x)) > HALF_HMS or int(m.group(1)) >= 24 \
                    or float(m.group(3)) >= 60:
                ctx.violation("dec2hms(%r) = %r" % (x, s), "hms_negative|x=%r" % x)


def ev_sexa_lattice(case, ctx):
    b, nb = case["block"], case["nblocks"]
    per = 1000
    sh = core.seed_shift(ctx.seed, 7, 1.0)
    k = np.arange(per) + b * per
    n = nb * per
    xs_dec = -90 + 180.0 * (k + sh) / n
    xs_ra = 360.0 * (k + sh) / n
    for x in xs_dec:
        ctx.nontrivial("dms%r" % float(x))
        check_dms(float(x), ctx)
    for x in xs_ra:
        ctx.nontrivial("hms%r" % float(x))
        check_hms(float(x), ctx)


def ev_nonfinite(case, ctx):
    for f in (at.dec2dms, at.dec2hms):
        for x in (np.nan, np.inf, -np.inf):
            ctx.count("nonfinite")
            if f(x) != "XX:XX:XX.XX":
                ctx.violation("%s(%r) = %r" % (f.__name__, x, f(x)), "nonfinite|%s(%r)" % (f.__name__, x))


CLAUSES = dict(poledest=ev_poledest, spellings=ev_spellings, arrays=ev_arrays, gcd_pairs=ev_gcd_pairs, bear_pairs=ev_bear_pairs, triangle=ev_triangle, translate=ev_translate,
               dms_boundary=ev_dms_boundary, hms_boundary=ev_hms_boundary, sexa_lattice=ev_sexa_lattice,
               nonfinite=ev_nonfinite)


def evaluate(clause, case, ctx):
    CLAUSES[clause](case, ctx)
