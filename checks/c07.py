"""
C07 BANE always terminates, is schedule-independent and fails cleanly.

Layers (DESIGN.md section 3, C07):
  1. layout sweep (E1) over (rows, grid, cores, stripes) on the real filter_mc_sharemem with a recording pool
  2. stateless schedule exploration (E3) of the real code under a controlled scheduler + single-fault enumeration
  3. TLA+ protocol model checked by TLC (E4); the per-stripe program is extracted from the running code
  4. conformance: TLC graph paths replayed on the real code under the scheduler (state-by-state refinement
     mapping), representative schedules replayed on REAL multiprocessing through cross-process gates, and a
     free-running pass on real processes
"""
import itertools
import logging
import multiprocessing as mp
import os
import shutil
import sys
import time

import numpy as np

import aegean_verif_hooks
from AegeanTools import BANE
from checks import bane_e3 as E
from mc import core, sched as S, tla

PROPERTY = "C07"
LEVEL = "model_checking"
HOOK_LABELS = ["start", "bkg_write", "wait1", "bkg_read", "rms_write", "wait2", "mask_write", "end"]
MEM_LABELS = {"bkg_write", "bkg_read", "rms_write", "mask_write"}
ASSUMPTIONS = [
    "interleavings are explored at lock-atomic granularity: scheduling points are the barrier's lock acquisitions, "
    "condition waits and the AEGEAN_VERIF hook labels placed before every shared-memory access of sigma_filter",
    "the pool and the condition variable are simulated (FakePool / SchedCondition); the barrier algorithm that runs "
    "is CPython's own threading.Barrier, which multiprocessing.Barrier inherits; the simulation is validated by "
    "replaying schedules on the real multiprocessing pool/barrier through cross-process gates",
    "OS-level events (SIGKILL of a worker, OOM) and hardware memory ordering are out of scope",
    "the TLA+ model covers synchronisation only; data flow on shared rows is decided by the schedule exploration "
    "(zero-filled shared memory + large DC offset make an early read visible)",
]


# --------------------------------------------------------------------------------------------------------------
# layer 1 helpers: layout of a configuration, obtained from the real code with a recording pool
# --------------------------------------------------------------------------------------------------------------
class _RecResult(object):
    def get(self, timeout=None):
        return None


class _RecPool(object):
    def __init__(self, rec, processes=None, **kw):
        self.rec = rec
        rec["processes"] = processes

    def map_async(self, fn, args, chunksize=None):
        self.rec["fn"] = fn
        self.rec["args"] = list(args)
        return _RecResult()

    def close(self):
        pass

    def join(self):
        pass


class _RecBarrierStub(object):
    def __init__(self, parties):
        self.parties = parties


class _RecCtx(object):
    def __init__(self, rec):
        self.rec = rec

    def Barrier(self, parties, action=None, timeout=None):
        self.rec["parties"] = parties
        return _RecBarrierStub(parties)

    def Pool(self, processes=None, initializer=None, initargs=(), maxtasksperchild=None):
        return _RecPool(self.rec, processes)


class _RecMP(object):
    def __init__(self, rec):
        self.rec = rec

    def get_context(self, method=None):
        return _RecCtx(self.rec)

    def cpu_count(self):
        return 4


def layout(rows, cols, grid, box, cores, nslice, mask=True, filename="unused.fits"):
    """(parties, processes, regions, args) the real filter_mc_sharemem would use"""
    rec = {}
    E.FakeSharedMemory.registry = {}
    BANE.multiprocessing = _RecMP(rec)
    BANE.SharedMemory = E.FakeSharedMemory
    try:
        BANE.filter_mc_sharemem(filename, step_size=tuple(grid), box_size=tuple(box), cores=cores, shape=(rows, cols),
                                nslice=nslice, domask=mask)
    finally:
        BANE.multiprocessing = E.REAL_MP
        BANE.SharedMemory = E.REAL_SHM
    leaked = sorted(E.FakeSharedMemory.registry)
    regions = [tuple(a[1]) for a in rec.get("args", [])]
    return dict(parties=rec.get("parties"), processes=rec.get("processes"), regions=regions, args=rec.get("args", []),
                leaked=leaked)


# --------------------------------------------------------------------------------------------------------------
# layer 3 helpers: extraction of the per-stripe synchronisation program from the running code
# --------------------------------------------------------------------------------------------------------------
class _RecBarrier(object):
    def __init__(self, idx, events):
        self.idx = idx
        self.events = events

    def wait(self, timeout=None):
        self.events.append("wait")
        return self.idx

    def reset(self):
        self.events.append("reset")

    def abort(self):
        self.events.append("abort")


def _run_stripe_alone(args, shape, idx, fault_label=None):
    """run the real worker wrapper for one stripe with a recording barrier that answers `idx`"""
    events = []
    E.FakeSharedMemory.registry = {}
    nbytes = int(np.prod(shape)) * 8
    BANE.SharedMemory = E.FakeSharedMemory
    E.FakeSharedMemory("ibkg_extract", create=True, size=nbytes)
    E.FakeSharedMemory("irms_extract", create=True, size=nbytes)
    old = (BANE.barrier, BANE.memory_id)
    BANE.barrier = _RecBarrier(idx, events)
    BANE.memory_id = "extract"

    def handler(label, region):
        events.append("work:" + label)
        if fault_label is not None and label == fault_label:
            raise S.InjectedFault("extract")
    aegean_verif_hooks.handler = handler
    raised = None
    try:
        try:
            BANE._sf2(args)
        except Exception as e:
            raised = e
    finally:
        aegean_verif_hooks.handler = None
        BANE.barrier, BANE.memory_id = old
        BANE.SharedMemory = E.REAL_SHM
        E.FakeSharedMemory.registry = {}
    return events, raised


def extract_program(lay, shape):
    """-> dict(prog=[ops], labels=[label or None per op], abort=bool, problems=[...])
    ops: work / wait / reset0 (reset only by the stripe whose wait() returned 0) / reset (unconditional)"""
    problems = []
    progs = []
    for a in lay["args"]:
        e0, r0 = _run_stripe_alone(a, shape, 0)
        e1, r1 = _run_stripe_alone(a, shape, 1)
        if r0 is not None or r1 is not None:
            problems.append("stripe %r raised when run alone: %r" % (a[1], r0 or r1))
            continue
        # align: e1 must equal e0 with (some) resets removed
        ops, labels = [], []
        j = 0
        ok = True
        for ev in e0:
            if ev == "reset":
                if j < len(e1) and e1[j] == "reset":
                    ops.append("reset")
                    j += 1
                else:
                    ops.append("reset0")
                labels.append(None)
                continue
            if j >= len(e1) or e1[j] != ev:
                ok = False
                break
            j += 1
            ops.append("work" if ev.startswith("work:") else "wait")
            labels.append(ev[5:] if ev.startswith("work:") else None)
        if not ok or j != len(e1):
            problems.append("stripe %r: the synchronisation structure depends on the barrier index in an unexpected way: %r vs %r" % (
                a[1], e0, e1))
            continue
        progs.append((tuple(ops), tuple(labels)))
    abort = "none"
    if lay["args"]:
        ef, rf = _run_stripe_alone(lay["args"][0], shape, 1, fault_label="start")
        abort = "abort" if "abort" in ef else ("reset" if "reset" in ef else "none")
        if rf is None:
            problems.append("an injected fault in the worker did not propagate out of the worker wrapper")
    if len(set(progs)) > 1:
        problems.append("stripes run different synchronisation programs: %r" % (sorted(set(p[0] for p in progs)),))
    prog, labels = progs[0] if progs else ((), ())
    return dict(prog=list(prog), labels=list(labels), abort=abort, problems=problems)


# --------------------------------------------------------------------------------------------------------------
# conformance: replay a model path on the real code under the scheduler, comparing states step by step
# --------------------------------------------------------------------------------------------------------------
class ConformanceError(Exception):
    pass


def _in_exception_wrapper(t):
    """is the parked task inside the worker wrapper's exception handler (reset()/abort() called from _sf2)?"""
    import sys
    fr = sys._current_frames().get(t.thread.ident) if t.thread is not None else None
    while fr is not None:
        if fr.f_code.co_name == "_sf2":
            return fr.f_lineno is not None and "sigma_filter" not in [f.f_code.co_name for f in _frames_above(t, fr)]
        fr = fr.f_back
    return False


def _frames_above(t, stop):
    import sys
    fr = sys._current_frames().get(t.thread.ident)
    out = []
    while fr is not None and fr is not stop:
        out.append(fr)
        fr = fr.f_back
    return out


def _model_norm_pc(prog, pc):
    """number of non-reset ops completed"""
    return sum(1 for k in range(min(pc, len(prog) + 1) - 1) if prog[k] in ("work", "wait")) if pc >= 1 else 0


class PathChooser(object):
    """drives the scheduler along one TLC path and checks the refinement mapping at every scheduling point"""

    def __init__(self, g, init, path, prog, barrier_getter, succ):
        self.g = g
        self.node = init
        self.path = list(path)
        self.pos = 0
        self.prog = prog
        self.get_barrier = barrier_getter
        self.succ = succ
        self.checked = 0
        self.choices = []
        self.deadlock_state = None

    def at_deadlock(self, sch):
        self.deadlock_state = self.impl_state(sch)

    def visible_enabled(self, node):
        """stripes (0-based) with an implementation-visible model action enabled, looking through the model's
        internal no-op steps of the same stripe (reset0 by a party whose index is not 0)"""
        out = set()
        for (b, act, s) in (self.succ or {}).get(node, []):
            if s is None:
                continue
            if self._has_impl_step_at(node, act, s):
                out.add(s - 1)
            else:
                n = b
                for _ in range(8):
                    nxt = [(b2, a2, s2) for (b2, a2, s2) in (self.succ or {}).get(n, []) if s2 == s]
                    if not nxt:
                        break
                    if any(self._has_impl_step_at(n, a2, s2) for (b2, a2, s2) in nxt):
                        out.add(s - 1)
                        break
                    n = nxt[0][0]
        return out

    # ---- abstraction of the implementation state ------------------------------------------------------------
    def impl_state(self, sch):
        b = self.get_barrier()
        st, pc = [], []
        spawned_ready = 0
        for t in sch.tasks:
            nwork = sum(1 for x in t.trace if x in HOOK_LABELS)
            nwait = sum(1 for (i, _) in (b.wait_returns if b else []) if i == t.idx)
            if t.state == "queued" or (t.state == "ready" and t.label == "<spawn>"):
                st.append("queued")
                if t.state == "ready":
                    spawned_ready += 1
            elif t.state == "ready":
                st.append("aborting" if (t.label.endswith("acquire:abort") or (t.label.endswith("acquire:reset") and _in_exception_wrapper(t))) else "run")
            elif t.state == "blocked":
                st.append("benter" if t.label.endswith("enter_wait") else "bwait")
            elif t.state == "done":
                st.append("done")
            elif t.state == "failed":
                st.append("failed")
            else:
                st.append(t.state)
            pc.append(nwork + nwait if st[-1] not in ("failed", "aborting") else None)
        return dict(st=st, npc=pc, bstate=b._state if b else 0, bcount=b._count if b else 0, busy=sch.busy - spawned_ready)

    def model_state(self):
        m = self.g["nodes"][self.node]
        st = list(m["st"])
        npc = [_model_norm_pc(self.prog, p) if q not in ("failed", "aborting") else None for p, q in zip(m["pc"], st)]
        # a model task that has executed its last op but not yet 'Finish' is still "run"
        return dict(st=st, npc=npc, bstate=m["bstate"], bcount=m["bcount"], busy=m["busy"])

    def compare(self, sch, where):
        a, b = (self.deadlock_state if (where == "at the end" and self.deadlock_state is not None) else self.impl_state(sch)), self.model_state()
        self.checked += 1
        if a != b:
            raise ConformanceError("state mismatch %s: implementation %r, model %r (model node %s, step %d)" % (
                where, a, b, self.node, self.pos))

    def _has_impl_step(self, act, s):
        if act in ("ParentGet", "Terminated"):
            return False
        if act == "Reset0":
            m = self.g["nodes"][self.node]
            op = self.prog[m["pc"][s - 1] - 1]
            return op == "reset" or m["idx"][s - 1] == 0
        return True

    def _skip(self):
        while self.pos < len(self.path):
            nxt, act, s = self.path[self.pos]
            if self._has_impl_step(act, s):
                return
            self.node = nxt
            self.pos += 1

    def __call__(self, sch, enabled):
        self._skip()
        self.compare(sch, "before step")
        # implementation-enabled stripes must be exactly those with an enabled model action (ignoring spurious
        # wake-ups of tasks sleeping while the barrier drains, which the model does not schedule)
        model_en = self.visible_enabled(self.node)
        impl_en = set()
        bar = self.get_barrier()
        spawn = sorted(t.idx for t in enabled if t.label == "<spawn>" and t.state == "ready")
        for t in enabled:
            if t.state == "blocked" and t.label.endswith("enter_wait") and bar is not None and bar._state in (-1, 1):
                continue
            if t.label == "<spawn>" and t.state == "ready" and t.idx != spawn[0]:
                continue    # workers take tasks in order; the model starts them in order (no visible difference)
            impl_en.add(t.idx)
        if self.succ is not None and model_en != impl_en:
            raise ConformanceError("enabled sets differ at model node %s: implementation %r %r, model %r %r; state %r" % (
                self.node, sorted(impl_en), [(t.idx, t.state, t.label) for t in enabled], sorted(model_en),
                [(a_, s_) for (_, a_, s_) in self.succ.get(self.node, [])], self.g["nodes"][self.node]))
        if self.pos >= len(self.path):
            raise ConformanceError("implementation still has enabled tasks %r after the model path ended" % sorted(impl_en))
        nxt, act, s = self.path[self.pos]
        ids = [t.idx for t in enabled]
        if (s - 1) not in ids:
            raise ConformanceError("model action %s(%d) is not enabled in the implementation (enabled %r)" % (act, s, ids))
        self.node = nxt
        self.pos += 1
        k = ids.index(s - 1)
        self.choices.append(k)
        return k

    def _has_impl_step_at(self, node, act, s):
        if act in ("ParentGet", "Terminated"):
            return False
        if act == "Reset0":
            m = self.g["nodes"][node]
            op = self.prog[m["pc"][s - 1] - 1]
            return op == "reset" or m["idx"][s - 1] == 0
        return True

    def finish(self, sch, outcome):
        self._skip()
        if self.pos != len(self.path):
            raise ConformanceError("implementation stopped (%s) but the model path has %d more steps: %r" % (
                outcome, len(self.path) - self.pos, self.path[self.pos:self.pos + 3]))
        m = self.g["nodes"][self.node]
        self.compare(sch, "at the end")
        if m["parent"] == "pending":
            exp = "deadlock"
        else:
            exp = "ok" if m["parent"] == "ok" else "raised"
        if outcome != exp:
            raise ConformanceError("outcome: implementation %s, model %s" % (outcome, exp))


def replay_path(inst, g, init, path, prog, labels, succ):
    """-> (observation, chooser); raises ConformanceError"""
    m0 = g["nodes"][init]
    fault = None
    if m0["FaultS"] != 0:
        fault = (m0["FaultS"] - 1, labels[m0["FaultPc"] - 1])
    holder = {}

    def get_barrier():
        f = holder.get("fmp")
        return f.ctx.barriers[0] if f is not None and f.ctx.barriers else None
    ch = PathChooser(g, init, path, prog, get_barrier, succ)
    obs = run_with_chooser(inst, ch, fault, holder)
    ch.finish(holder["sched"], obs.outcome)
    return obs, ch


def run_with_chooser(inst, chooser, fault, holder):
    sch = S.Scheduler(chooser=chooser)
    fmp = S.FakeMultiprocessing(sch)
    holder["fmp"] = fmp
    holder["sched"] = sch
    return _run(inst, sch, fmp, fault, yield_labels=set(HOOK_LABELS))


def _run(inst, sch, fmp, fault, yield_labels):
    import hashlib
    E.FakeSharedMemory.registry = {}
    E.FakeSharedMemory.log = []

    def handler(label, region):
        if label in yield_labels:
            sch.yield_point(label)
        else:
            t = sch.me()
            if t is not None:
                t.trace.append(label)
                if sch.on_label is not None:
                    sch.on_label(t.idx, label)

    if fault is not None:
        def on_label(idx, label):
            if (idx, label) == tuple(fault):
                raise S.InjectedFault("injected fault in stripe %d at %s" % (idx, label))
        sch.on_label = on_label
    obs = E.Observation()
    obs.bkg = obs.rms = obs.exc = None
    BANE.multiprocessing = fmp
    BANE.SharedMemory = E.FakeSharedMemory
    aegean_verif_hooks.handler = handler
    try:
        try:
            bkg, rms = BANE.filter_mc_sharemem(inst["file"], step_size=tuple(inst["grid"]), box_size=tuple(inst["box"]),
                                               cores=inst["cores"], shape=tuple(inst["shape"]), nslice=inst["nslice"],
                                               domask=inst["mask"])
            obs.outcome, obs.detail = "ok", ""
            obs.bkg, obs.rms = bkg, rms
            obs.digest = hashlib.sha1(bkg.tobytes() + rms.tobytes()).hexdigest()[:16]
        except S.Deadlock as e:
            obs.outcome, obs.detail, obs.digest = "deadlock", str(e), None
        except (S.ReplayDivergence, ConformanceError):
            raise
        except Exception as e:
            msg = str(e).strip().splitlines()[-1][:200] if str(e).strip() else ""
            obs.outcome, obs.detail, obs.digest, obs.exc = "raised", "%s: %s" % (type(e).__name__, msg), None, e
    finally:
        BANE.multiprocessing = E.REAL_MP
        BANE.SharedMemory = E.REAL_SHM
        aegean_verif_hooks.handler = None
    obs.leaked = sorted(E.FakeSharedMemory.registry)
    obs.points = sch.points
    obs.traces = [t.trace for t in sch.tasks]
    obs.events = sch.events
    obs.n_tasks = len(sch.tasks)
    obs.regions = [tuple(t.arg[1]) for t in sch.tasks]
    b = fmp.ctx.barriers[0] if fmp.ctx.barriers else None
    obs.parties = b.parties if b else None
    obs.barrier_returns = list(b.wait_returns) if b else []
    obs.processes = sch.slots
    return obs


LAST_RUN = {}


def run_schedule(inst, choices=(), fault=None, mode="mem", clip=False, fire_timer=None):
    """one execution under the scheduler; mode 'sync': only barrier operations are scheduling points; 'mem': also the
    shared-memory access labels; 'all': every hook label.  fire_timer = n: the n-th wait that was given a finite timeout
    expires before its condition holds (a timer landing first)"""
    sch = S.Scheduler(choices, clip=clip)
    sch.fire_timer = fire_timer
    sch.timed_waits = 0
    fmp = S.FakeMultiprocessing(sch)
    yl = dict(sync=set(), mem=MEM_LABELS, all=set(HOOK_LABELS))[mode]
    o = _run(inst, sch, fmp, fault, yl)
    LAST_RUN["timed_waits"] = int(getattr(sch, "timed_waits", 0) or 0)
    return o


# --------------------------------------------------------------------------------------------------------------
# orchestration
# --------------------------------------------------------------------------------------------------------------
COLS = 8
GRID = (2, 2)
BOX = (4, 4)


def configs(tier):
    c = [dict(name="S1", rows=16, nslice=1, cores=[1]),
         dict(name="S2", rows=16, nslice=2, cores=[2, 3]),
         dict(name="S3", rows=15, nslice=2, cores=[2, 3])]     # 3 stripes (7,7,1) realised from a request for 2
    if tier != "quick":
        c += [dict(name="S3b", rows=18, nslice=3, cores=[3, 2]),
              dict(name="S4", rows=16, nslice=4, cores=[4, 2]),
              dict(name="S5", rows=18, nslice=4, cores=[4])]    # 5 stripes realised from a request for 4
    return c


def make_inst(cfg, cores, mask, scratch):
    f = os.path.join(scratch, "c07_%s.fits" % cfg["name"])
    if not os.path.exists(f):
        E.make_image(f, cfg["rows"], COLS, nan_block=True, offset=1024.0, seed=3)
    return dict(file=f, shape=(cfg["rows"], COLS), grid=GRID, box=BOX, cores=cores, nslice=cfg["nslice"], mask=mask,
                name=cfg["name"])


def inst_key(inst):
    return "%s,rows=%d,nslice=%r,cores=%d,mask=%s" % (inst["name"], inst["shape"][0], inst["nslice"], inst["cores"], inst["mask"])


# ---- layer 2: exploration of one instance (runs in a worker process) -------------------------------------------
def explore_instance(job):
    logging.disable(logging.CRITICAL)
    inst, mode, bound, fault, cap = job
    outcomes = {}
    first = {}
    stats = dict(executions=0, points=0, max_preemptions=0)

    def run_one(prefix):
        o = run_schedule(inst, prefix, fault=fault, mode=mode)
        key = (o.outcome, o.digest, o.detail if o.outcome != "ok" else "", tuple(o.leaked))
        outcomes[key] = outcomes.get(key, 0) + 1
        if key not in first:
            first[key] = [p["chosen"] for p in o.points]
        stats["points"] += len(o.points)
        return o
    r = S.explore(run_one, bound=bound, max_executions=cap)
    stats["executions"] = r["executions"]
    return dict(inst=inst, mode=mode, bound=bound, fault=fault, capped=r["capped"], stats=stats,
                outcomes=[dict(outcome=k[0], digest=k[1], detail=k[2], leaked=list(k[3]), n=v, schedule=first[k])
                          for k, v in outcomes.items()])


# ---- layer 1: sweep over one value of rows (runs in a worker process) ----------------------------------------------
def sweep_rows(job):
    rows, grids, max_cores = job
    out = dict(n=0, instances={}, problems=[])
    for g in grids:
        box = (max(4, g[0]), max(4, g[1]))
        for cores in range(1, max_cores + 1):
            for nslice in [None] + list(range(1, 2 * cores + 1)):
                out["n"] += 1
                try:
                    lay = layout(rows, 1, g, box, cores, nslice)
                except Exception as e:
                    out["problems"].append(("layout_raise", (rows, g, cores, nslice), repr(e)))
                    continue
                regs = lay["regions"]
                ok = bool(regs) and regs[0][0] == 0 and regs[-1][1] == rows and \
                    all(a[1] == b[0] for a, b in zip(regs, regs[1:])) and all(a[0] < a[1] for a in regs)
                if not ok:
                    out["problems"].append(("tiling", (rows, g, cores, nslice), "stripes %r do not tile [0,%d)" % (regs[:6], rows)))
                if lay["parties"] != len(regs):
                    out["problems"].append(("parties", (rows, g, cores, nslice), "barrier parties %r for %d tasks" % (lay["parties"], len(regs))))
                if lay["leaked"]:
                    out["problems"].append(("leak", (rows, g, cores, nslice), "segments left: %r" % lay["leaked"]))
                key = (len(regs), lay["processes"])
                if key not in out["instances"]:
                    out["instances"][key] = [0, (rows, g, cores, nslice)]
                out["instances"][key][0] += 1
    return out


def counter_job(job):
    d, S_, prog, faultpcs, fail = job
    tla.write_counter_instance(d, S_, prog, faultpcs, fail)
    v = tla.verdict(d, workers=2)
    shutil.rmtree(d, ignore_errors=True)
    return S_, v


def counter_layer(tier, progs, scratch, ctx):
    """counter abstraction (models/BaneCounter.tla): validated against the full model by comparing reachable state sets for
    small S, then model checked for every S = C up to a larger bound"""
    from concurrent.futures import ThreadPoolExecutor
    quick = tier == "quick"
    out = dict(verdicts={}, coverage=dict(validated=[], validated_up_to=0, instances={}, states=0, applicable=True))
    smax_val = 3 if quick else 4
    sbound = 16 if quick else 32
    for mask in (True, False):
        ex = progs[mask]
        prog = ex["prog"]
        if not prog or any(op not in ("work", "wait") for op in prog):
            out["coverage"]["applicable"] = False
            out["coverage"]["reason"] = "the extracted program contains %r: the counter abstraction only covers work/wait programs" % (sorted(set(prog)),)
            continue
        work_pcs = [i + 1 for i, op in enumerate(prog) if op == "work"]
        fail = ex["abort"] if isinstance(ex["abort"], str) else ("abort" if ex["abort"] else "none")
        # ---- validation: projection of the full model's reachable states == reachable states of the counter model
        for s_ in range(1, smax_val + 1):
            if not mask and s_ == smax_val and not quick:
                continue
            d = os.path.join(scratch, "cval_full_%d_%s" % (s_, mask))
            faults = [(0, 0)] + [(s, p) for s in range(1, s_ + 1) for p in work_pcs]
            tla.write_instance(d, s_, s_, prog, faults, fail)
            g = tla.graph(d)
            shutil.rmtree(d, ignore_errors=True)
            proj = set()
            for st in g["nodes"].values():
                if st["FaultS"] == 0:
                    for t in range(1, s_ + 1):
                        proj.add(tla.project_to_counter(st, t, prog))
                else:
                    proj.add(tla.project_to_counter(st, st["FaultS"], prog))
            d2 = os.path.join(scratch, "cval_cnt_%d_%s" % (s_, mask))
            tla.write_counter_instance(d2, s_, prog, [0] + work_pcs, fail)
            g2 = tla.graph(d2)
            shutil.rmtree(d2, ignore_errors=True)
            cs = set(tla.counter_key(st) for st in g2["nodes"].values())
            rec = dict(S=s_, mask=mask, full_states=len(g["nodes"]), projected=len(proj), counter_states=len(cs), equal=proj == cs)
            out["coverage"]["validated"].append(rec)
            ctx.count("counter_validations")
            if proj != cs:
                ctx.harness_errors.append(dict(clause="counter_validation", case=rec,
                                               tb="counter abstraction and full model disagree: only in projection %r, only in counter %r" % (
                                                   list(proj - cs)[:2], list(cs - proj)[:2])))
            else:
                out["coverage"]["validated_up_to"] = max(out["coverage"]["validated_up_to"], s_)
        # ---- verdicts for larger S
        jobs = [(os.path.join(scratch, "cnt_%d_%s" % (s_, mask)), s_, prog, [0] + work_pcs, fail) for s_ in range(smax_val + 1, sbound + 1)]
        with ThreadPoolExecutor(max_workers=5) as tp:
            for s_, v in tp.map(counter_job, jobs):
                out["verdicts"][(s_, mask)] = v
                out["coverage"]["instances"]["S=C=%d,mask=%s" % (s_, mask)] = "%s (%d states)" % (v["error"] or "ok", v["distinct"])
                out["coverage"]["states"] += v["distinct"]
                ctx.count("counter_instances")
                if v["error"] == "tlc_failed":
                    ctx.harness_errors.append(dict(clause="counter_tlc", case=s_, tb=v["raw"]))
    return out


def tlc_job(job):
    d, S_, C_, prog, faults, abort = job
    tla.write_instance(d, S_, C_, prog, faults, abort)
    v = tla.verdict(d)
    shutil.rmtree(d, ignore_errors=True)
    return (S_, C_), v


def trace_to_path(trace):
    """TLC JSON counterexample -> (mini graph, init id, path) usable by PathChooser (no successor information)"""
    nodes = {"0": trace["init"]}
    path = []
    for i, st in enumerate(trace["steps"]):
        nodes[str(i + 1)] = st["state"]
        path.append((str(i + 1), st["action"], st["s"]))
    return dict(nodes=nodes, edges=[], inits=["0"]), "0", path


def find_config_for(S_, C_, reach):
    """a small concrete configuration (rows, grid, cores, nslice) realising instance (S, C), from the sweep"""
    e = reach.get((S_, C_))
    return e[1] if e else None


def main(tier, seed, t0):
    logging.disable(logging.CRITICAL)
    scratch = os.environ["VERIF_SCRATCH"]
    ctx = core.Ctx(PROPERTY, tier, seed, level=LEVEL)
    quick = tier == "quick"
    ncpu = min(16, os.cpu_count() or 1)
    pool = mp.get_context("fork").Pool(ncpu)
    cov = {}
    try:
        # ------------------------------------------------------------------ programs (extracted from the code)
        progs = {}
        for mask in (True, False):
            cfg = configs(tier)[1]
            inst = make_inst(cfg, cfg["cores"][0], mask, scratch)
            lay = layout(cfg["rows"], COLS, GRID, BOX, inst["cores"], inst["nslice"], mask, inst["file"])
            ex = extract_program(lay, inst["shape"])
            progs[mask] = ex
            for pr in ex["problems"]:
                ctx.violation("program extraction (mask=%s): %s" % (mask, pr), "sync_structure|mask=%s" % mask,
                              clause="extract", case=dict(mask=mask))
        cov["extracted_programs"] = {str(k): dict(prog=v["prog"], labels=v["labels"], abort_on_fail=v["abort"]) for k, v in progs.items()}

        # ------------------------------------------------------------------ layer 1: layout sweep (async)
        max_rows = 64 if quick else 300
        grids = [(g, g) for g in range(1, 17)] + [(g, 2 * g) for g in (1, 2, 3, 5, 8)] + [(2 * g, g) for g in (1, 2, 3, 5, 8)]
        sweep_async = pool.map_async(sweep_rows, [(r, grids, 16) for r in range(1, max_rows + 1)], chunksize=1)

        # ------------------------------------------------------------------ layer 3: TLC verdicts
        smax = 3 if quick else 4
        tlc_jobs = []
        pairs = [(s, c) for s in range(1, smax + 1) for c in range(1, smax + 1)]
        if not quick:
            pairs += [(5, 5)]      # (6,6) without faults has 5.9e7 states and takes TLC 28 min: left out of the registered tier
        for mask in (True, False):
            ex = progs[mask]
            for (s_, c_) in pairs:
                work_pcs = [i + 1 for i, op in enumerate(ex["prog"]) if op == "work"]
                faults = [(0, 0)] + ([(s, p) for s in range(1, s_ + 1) for p in work_pcs] if s_ <= 4 else [(1, work_pcs[0]), (s_, work_pcs[-2])])
                d = os.path.join(scratch, "tlc_%d_%d_%s" % (s_, c_, mask))
                tlc_jobs.append((d, s_, c_, ex["prog"], faults, ex["abort"]))
        from concurrent.futures import ThreadPoolExecutor
        with ThreadPoolExecutor(max_workers=6) as tp:
            tlc_res = list(tp.map(tlc_job, tlc_jobs))
        verdicts = {}
        tlc_states = 0
        tlc_trans = 0
        for job, (key, v) in zip(tlc_jobs, tlc_res):
            mask = job in [j for j in tlc_jobs[:len(tlc_jobs) // 2]]
            verdicts[(key[0], key[1], mask)] = v
            tlc_states += v["distinct"]
            tlc_trans += v["states"]
            ctx.count("tlc_instances")
            ctx.outcome("tlc:%s" % (v["error"] or "ok"))
            if v["error"] == "tlc_failed":
                ctx.harness_errors.append(dict(clause="tlc", case=key, tb=v["raw"]))
        cov["tlc"] = dict(instances=len(tlc_res), distinct_states=tlc_states, states_generated=tlc_trans,
                          verdicts={"S=%d,C=%d,mask=%s" % k: (v["error"] or "ok") for k, v in sorted(verdicts.items())})

        # ------------------------------------------------------------------ layer 3b: counter abstraction for larger S = C
        counter = counter_layer(tier, progs, scratch, ctx)
        cov["counter_abstraction"] = counter["coverage"]

        # ------------------------------------------------------------------ layer 1 results
        reach = {}
        nlay = 0
        for part in sweep_async.get():
            nlay += part["n"]
            for k, (n, ex_) in part["instances"].items():
                if k not in reach:
                    reach[k] = [0, ex_]
                reach[k][0] += n
            for kind, cfg_, what in part["problems"]:
                ctx.violation("%s for (rows, grid, cores, stripes) = %r" % (what, cfg_), "%s|%r" % (kind, cfg_),
                              clause="layout", case=dict(config=list(cfg_)))
        ctx.count("layouts", nlay)
        judged = dict(ok=0, violating=0, not_covered=0)
        for (s_, c_), (n, example) in sorted(reach.items()):
            for mask in (True, False):
                v = verdicts.get((s_, c_, mask))
                if v is None and s_ == c_ and (s_, mask) in counter["verdicts"]:
                    cv = counter["verdicts"][(s_, mask)]
                    if cv["error"] is None:
                        judged["ok_by_counter_abstraction"] = judged.get("ok_by_counter_abstraction", 0) + n
                    else:
                        judged["violating"] += n
                        ctx.violation("TLC on the counter abstraction (validated against the full model for S <= %d): %s for %d stripes on %d "
                                      "workers (mask=%s); first reached by (rows, grid, cores, stripes) = %r; %d swept layouts map to this instance" % (
                                          counter["coverage"]["validated_up_to"], cv["error"], s_, c_, mask, example, n),
                                      "counter_%s|instance(S=%d,C=%d,mask=%s)" % (cv["error"].replace(" ", "_"), s_, c_, mask), clause="layout",
                                      case=dict(config=list(example)))
                    continue
                if v is None:
                    judged["not_covered"] += n
                    continue
                if v["error"] is None:
                    judged["ok"] += n
                    continue
                judged["violating"] += n
                # confirm the model counterexample on the real code (model trace -> schedule of the real stripes)
                rows, g, cores, nslice = example
                f = os.path.join(scratch, "cex_%d_%d.fits" % (s_, c_))
                E.make_image(f, rows, COLS, nan_block=False, seed=5)
                box = (max(4, g[0]), max(4, g[1]))
                inst = dict(file=f, shape=(rows, COLS), grid=g, box=box, cores=cores, nslice=nslice, mask=mask, name="cex")
                gmini, init, path = trace_to_path(v["trace"])
                ex = progs[mask]
                sig = "%s|instance(S=%d,C=%d,mask=%s)" % (v["error"].replace(" ", "_"), s_, c_, mask)
                try:
                    m0 = gmini["nodes"][init]
                    obs, ch = replay_path(inst, gmini, init, path, ex["prog"], ex["labels"], None)
                    fault = None if m0["FaultS"] == 0 else [m0["FaultS"] - 1, ex["labels"][m0["FaultPc"] - 1]]
                    ctx.violation("TLC: %s for %d stripes on %d workers (mask=%s%s), reproduced on the real code under the "
                                  "scheduler: %s %s; first reached by (rows=%d, grid=%r, cores=%d, stripes=%r); %d swept "
                                  "layouts map to this instance" % (
                                      v["error"], s_, c_, mask, ", fault in stripe %d at %s" % tuple(fault) if fault else "",
                                      obs.outcome, obs.detail, rows, g, cores, nslice, n), sig, clause="schedule",
                                  case=dict(inst=inst_nofile(inst), choices=ch.choices, fault=fault, mode="all", image_seed=5,
                                            nan_block=False))
                    ctx.count("tlc_counterexamples_confirmed_on_code")
                except ConformanceError as e:
                    ctx.harness_errors.append(dict(clause="tlc_cex_replay", case=sig, tb="model counterexample does not replay on the code: %s" % e))
        cov["layout_sweep"] = dict(layouts=nlay, rows="1..%d" % max_rows, grids=len(grids), cores="1..16", stripes="None,1..2*cores",
                                   reachable_instances={"S=%d,C=%s" % k: v[0] for k, v in sorted(reach.items())},
                                   judged=judged)

        # ------------------------------------------------------------------ layer 2: schedule exploration + faults
        jobs = []
        cap = 4000 if quick else 40000
        for cfg in configs(tier):
            for mask in (True, False):
                for cores in cfg["cores"]:
                    inst = make_inst(cfg, cores, mask, scratch)
                    nstripes = {"S1": 1, "S2": 2, "S3": 3, "S3b": 3, "S4": 4, "S5": 5}[cfg["name"]]
                    jobs.append((inst, "sync", None if nstripes <= 2 else (2 if quick else 3), None, cap))
                    if mask or not quick:
                        jobs.append((inst, "mem", 2 if nstripes <= (2 if quick else 3) else 1, None, cap))
        # single-fault enumeration: every stripe x every hook label, all schedules with <= 1 preemption
        for cfg in configs(tier)[:3]:
            for mask in (True,) if quick else (True, False):
                cores = cfg["cores"][-1]
                inst = make_inst(cfg, cores, mask, scratch)
                lay = layout(cfg["rows"], COLS, GRID, BOX, cores, cfg["nslice"], mask, inst["file"])
                for stripe in range(len(lay["regions"])):
                    for label in progs[mask]["labels"]:
                        if label is not None:
                            jobs.append((inst, "sync", 1, (stripe, label), cap))
        results = pool.map(explore_instance, jobs, chunksize=1)
        layout_digest = {}
        nexec = 0
        npoints = 0
        capped = 0
        for r in results:
            nexec += r["stats"]["executions"]
            npoints += r["stats"]["points"]
            capped += 1 if r["capped"] else 0
            inst = r["inst"]
            key = inst_key(inst)
            ctx.count("e3_executions", r["stats"]["executions"])
            ctx.count("e3_jobs")
            for o in r["outcomes"]:
                ctx.outcome("e3:%s%s" % (o["outcome"], ":fault" if r["fault"] else ""), o["n"])
                case = dict(inst=inst_nofile(inst), choices=o["schedule"], fault=list(r["fault"]) if r["fault"] else None,
                            mode=r["mode"], image_seed=3, nan_block=True)
                if o["leaked"]:
                    ctx.violation("shared memory left behind %r (%s, schedule %r)" % (o["leaked"], key, o["schedule"]),
                                  "leak|%s,fault=%r" % (key, r["fault"]), clause="schedule", case=case)
                if r["fault"] is None:
                    if o["outcome"] == "deadlock":
                        ctx.violation("%d of the explored schedules of %s (%s mode) deadlock: %s; first schedule %r" % (
                            o["n"], key, r["mode"], o["detail"], o["schedule"]), "schedule_deadlock|%s" % key, clause="schedule", case=case)
                    elif o["outcome"] == "raised":
                        ctx.violation("%d of the explored schedules of %s raise %s; first schedule %r" % (
                            o["n"], key, o["detail"], o["schedule"]), "schedule_raise|%s" % key, clause="schedule", case=case)
                    else:
                        lk = (inst["name"], inst["mask"])
                        if lk in layout_digest and layout_digest[lk][0] != o["digest"]:
                            ctx.violation("maps of layout %s depend on the schedule / worker count: digest %s (%s) vs %s (%s, schedule %r)" % (
                                inst["name"], layout_digest[lk][0], layout_digest[lk][1], o["digest"], key, o["schedule"]),
                                "schedule_dependence|%s,mask=%s" % (inst["name"], inst["mask"]), clause="schedule", case=case)
                        layout_digest.setdefault(lk, (o["digest"], key))
                else:
                    if o["outcome"] == "deadlock":
                        ctx.violation("fault in stripe %d at %s: %d schedules of %s hang instead of raising (%s); first schedule %r" % (
                            r["fault"][0], r["fault"][1], o["n"], key, o["detail"], o["schedule"]),
                            "fault_hang|%s,fault=%r" % (key, tuple(r["fault"])), clause="schedule", case=case)
                    elif o["outcome"] == "ok":
                        ctx.violation("fault in stripe %d at %s was swallowed (%s)" % (r["fault"][0], r["fault"][1], key),
                                      "fault_swallowed|%s,fault=%r" % (key, tuple(r["fault"])), clause="schedule", case=case)
        cov["schedule_jobs"] = [dict(inst=inst_key(r["inst"]), mode=r["mode"], preemption_bound=r["bound"], fault=r["fault"],
                                     executions=r["stats"]["executions"], capped=r["capped"]) for r in results]
        cov["schedule_exploration"] = dict(jobs=len(jobs), executions=nexec, scheduling_points=npoints, jobs_capped=capped,
                                           cap_per_job=cap, distinct_result_digests={"%s,mask=%s" % k: v[0] for k, v in layout_digest.items()})

        # ------------------------------------------------------------------ layer 4a: conformance (graph paths on the code)
        conf = conformance(tier, progs, scratch, ctx)
        cov["conformance"] = conf

        # ------------------------------------------------------------------ stripe-count dependence of the maps
        cross_layout(ctx, scratch, cov)
        timers(ctx, scratch, cov)

        # ------------------------------------------------------------------ layer 4b/c: real processes
        try:
            from checks import c07_real
            c07_real.run(ctx, cov, tier, scratch, progs)
        except ImportError:
            pass
    finally:
        pool.close()
        pool.join()
    ctx.evaluations = cov["schedule_exploration"]["executions"] + nlay + cov["conformance"]["paths_replayed"]
    ctx.nontrivial_counted = cov["schedule_exploration"]["executions"]
    ctx.samples = cov["conformance"].get("samples", [])[:3] + [dict(schedule=r["outcomes"][0]["schedule"], inst=inst_key(r["inst"]), mode=r["mode"])
                                                               for r in results[:3]]
    extra = dict(states=cov["tlc"]["distinct_states"] + cov["conformance"]["graph_states"] + cov["counter_abstraction"]["states"],
                 transitions=cov["tlc"]["states_generated"] + cov["conformance"]["graph_edges"],
                 traces_validated_against_impl=cov["conformance"]["paths_replayed"] + ctx.counters.get("tlc_counterexamples_confirmed_on_code", 0)
                 + cov.get("real_process", {}).get("schedules_replayed", 0),
                 exhaustive=(capped == 0))
    extra.update(cov)
    rule = ("TLC: all reachable states of the pool+barrier protocol for every (stripes, workers) up to the bound, no fault and "
            "every single (stripe, phase) fault; scheduler: every interleaving of the real stripes at barrier operations "
            "(unbounded for <= 2 stripes, preemption-bounded above) and at shared-memory accesses (preemption bound 2); "
            "sweep: every (rows, grid, cores, stripes) layout; distinct_nontrivial = executed schedules")
    return core.finish(sys.modules[__name__], ctx, t0, extra_coverage=extra, exhaustive=(capped == 0), rule=rule)


def inst_nofile(inst):
    d = dict(inst)
    d.pop("file", None)
    d["grid"] = list(d["grid"])
    d["box"] = list(d["box"])
    d["shape"] = list(d["shape"])
    return d


def conformance(tier, progs, scratch, ctx):
    """replay TLC graph paths on the real code under the scheduler"""
    out = dict(paths_replayed=0, graph_states=0, graph_edges=0, state_comparisons=0, instances=[], samples=[])
    todo = [(2, 2, True, "all_faults"), (2, 2, False, "no_fault")]
    if tier != "quick":
        todo += [(3, 3, True, "no_fault"), (3, 3, False, "all_faults"), (2, 1, True, "no_fault"), (3, 2, True, "no_fault")]
    cfg_for = {2: configs("quick")[1], 3: configs("quick")[2]}
    for (s_, c_, mask, fmode) in todo:
        ex = progs[mask]
        work_pcs = [i + 1 for i, op in enumerate(ex["prog"]) if op == "work"]
        faults = [(0, 0)] + ([(s, p) for s in range(1, s_ + 1) for p in work_pcs] if fmode == "all_faults" else [])
        d = os.path.join(scratch, "tlcg_%d_%d_%s" % (s_, c_, mask))
        tla.write_instance(d, s_, c_, ex["prog"], faults, ex["abort"])
        g = tla.graph(d)
        shutil.rmtree(d, ignore_errors=True)
        cfg = cfg_for[s_]
        inst = make_inst(cfg, c_, mask, scratch)
        lay = layout(cfg["rows"], COLS, GRID, BOX, c_, cfg["nslice"], mask, inst["file"])
        if (len(lay["regions"]), lay["processes"]) != (s_, c_):
            out["instances"].append(dict(S=s_, C=c_, mask=mask, skipped="the code realises (S=%d, C=%r) for this configuration" % (
                len(lay["regions"]), lay["processes"])))
            continue
        succ = tla.successors(g)
        nmax = tla.count_maximal_paths(g)
        if nmax <= (3000 if tier == "quick" else 30000):
            paths = tla.maximal_paths(g)
            kind = "all maximal paths"
        else:
            paths = tla.edge_cover_paths(g)
            kind = "edge-covering path set (%d maximal paths exist)" % nmax
        bad = 0
        for init, path in paths:
            try:
                obs, ch = replay_path(inst, g, init, path, ex["prog"], ex["labels"], succ)
                out["state_comparisons"] += ch.checked
                out["paths_replayed"] += 1
                if len(out["samples"]) < 2:
                    out["samples"].append(dict(model_path=["%s(%s)" % (a, s) for (_, a, s) in path], outcome=obs.outcome))
            except ConformanceError as e:
                bad += 1
                if bad <= 3:
                    ctx.harness_errors.append(dict(clause="conformance", case=dict(S=s_, C=c_, mask=mask),
                                                   tb="model and implementation disagree: %s" % e))
        out["graph_states"] += len(g["nodes"])
        out["graph_edges"] += len(g["edges"])
        out["instances"].append(dict(S=s_, C=c_, mask=mask, faults=fmode, states=len(g["nodes"]), edges=len(g["edges"]),
                                     paths=len(paths), kind=kind, disagreements=bad))
    return out


def timers(ctx, scratch, cov):
    """'never blocks / identical for every interleaving' includes the interleavings in which a stripe is slow: if the stripe
    code arms a finite timeout on a synchronisation wait, that timer may land first.  Every armed timed wait is made to expire
    once (deviation bound 1); the call must still return the same maps."""
    f = os.path.join(scratch, "c07_timers.fits")
    E.make_image(f, 24, COLS, nan_block=True, offset=1024.0, seed=5)
    total = 0
    for nslice, cores in [(2, 2), (3, 3)]:
        inst = dict(file=f, shape=(24, COLS), grid=GRID, box=BOX, cores=cores, nslice=nslice, mask=True, name="timers")
        ref = run_schedule(inst, (), mode="sync")
        ctx.count("timer_runs")
        armed = int(LAST_RUN.get("timed_waits", 0))
        total += armed
        for n in range(min(armed, 12)):
            o = run_schedule(inst, (), mode="sync", fire_timer=n)
            ctx.count("timer_runs")
            same = o.outcome == "ok" and ref.outcome == "ok" and np.array_equal(o.bkg, ref.bkg, equal_nan=True) and np.array_equal(o.rms, ref.rms, equal_nan=True)
            if not same:
                ctx.violation("a synchronisation wait in the stripe code carries a finite timeout; when timed wait #%d expires before the other stripes arrive "
                              "(a slow stripe, %d stripes) the call ends with %s %s instead of returning the maps" % (n, nslice, o.outcome, getattr(o, "detail", "")),
                              "timer_breaks_call|nslice=%d,timer=%d" % (nslice, n), clause="timers", case=dict(nslice=nslice, cores=cores, timer=n))
    cov["timers"] = dict(timed_waits_armed=total, note="0 = the stripe code waits without time limits; each armed timer is fired once")


def cross_layout(ctx, scratch, cov):
    """changing the number of stripes changes the maps by at most a small fraction of the local noise"""
    rows, cols = 96, 48
    grid, box = (4, 4), (16, 16)
    f = os.path.join(scratch, "c07_cross.fits")
    E.make_image(f, rows, cols, nan_block=False, offset=1024.0, seed=7)
    ref = None
    worst = 0.0
    for nslice, cores in [(1, 1), (2, 2), (3, 3), (4, 4), (5, 3), (7, 4)]:
        inst = dict(file=f, shape=(rows, cols), grid=grid, box=box, cores=cores, nslice=nslice, mask=True, name="cross")
        o = run_schedule(inst, (), mode="sync")
        ctx.count("cross_layout_runs")
        if o.outcome != "ok":
            continue    # termination is judged by the other layers
        if ref is None:
            ref = o
            continue
        db = float(np.nanmax(np.abs(o.bkg.astype(float) - ref.bkg.astype(float))))
        dr = float(np.nanmax(np.abs(o.rms.astype(float) - ref.rms.astype(float))))
        worst = max(worst, db, dr)
        # the injected noise has sigma = 1
        if max(db, dr) > 0.25:
            ctx.violation("maps for %d requested stripes differ from the single-stripe maps by up to %.3g (bkg) / %.3g (rms) "
                          "local sigma on a %dx%d image with DC offset 1024" % (nslice, db, dr, rows, cols),
                          "stripe_dependence|rows=%d,cols=%d,nslice=%d" % (rows, cols, nslice), clause="cross_layout",
                          case=dict(nslice=nslice, cores=cores))
    # non-square boxes / grids on a ramp: the halo a stripe borrows must follow the ROW extent of the box
    worst2 = 0.0
    f2 = os.path.join(scratch, "c07_cross2.fits")
    E.make_image(f2, 128, 64, nan_block=False, offset=16.0, seed=11, slope=0.05)
    for grid2, box2 in [((8, 8), (48, 16)), ((8, 4), (40, 20)), ((4, 8), (16, 48))]:
        ref2 = None
        for nslice, cores in [(1, 1), (2, 2), (4, 4), (5, 3)]:
            inst = dict(file=f2, shape=(128, 64), grid=grid2, box=box2, cores=cores, nslice=nslice, mask=True, name="cross2")
            o = run_schedule(inst, (), mode="sync")
            ctx.count("cross_layout_runs")
            if o.outcome != "ok":
                continue
            if ref2 is None:
                ref2 = o
                continue
            db = float(np.nanmax(np.abs(o.bkg.astype(float) - ref2.bkg.astype(float))))
            dr = float(np.nanmax(np.abs(o.rms.astype(float) - ref2.rms.astype(float))))
            worst2 = max(worst2, db, dr)
            if max(db, dr) > 0.25:
                ctx.violation("maps for %d requested stripes differ from the single-stripe maps by up to %.3g (bkg) / %.3g (rms) local sigma "
                              "(128x64 image on a 0.05 sigma/row ramp, grid %r, box %r)" % (nslice, db, dr, grid2, box2),
                              "stripe_dependence|ramp,grid=%r,box=%r,nslice=%d" % (grid2, box2, nslice), clause="cross_layout",
                              case=dict(nslice=nslice, cores=cores))
    # blank bands of rows that cover whole stripes, with and without masking: the set of blank OUTPUT pixels must not depend on
    # the number of stripes either
    from astropy.io import fits as _fits
    worst3 = 0.0
    f3 = os.path.join(scratch, "c07_cross3.fits")
    for band_name, band in (("bottom_quarter", slice(96, 128)), ("middle", slice(40, 72)), ("top_rows", slice(0, 33))):
        E.make_image(f3, 128, 96, nan_block=False, offset=3.0, seed=13)
        with _fits.open(f3, mode="update") as hl:
            hl[0].data[band, :] = np.nan
        for mask in (True, False):
            ref3 = None
            for nslice, cores in [(1, 1), (2, 2), (4, 4), (5, 3)]:
                inst = dict(file=f3, shape=(128, 96), grid=(8, 8), box=(48, 48), cores=cores, nslice=nslice, mask=mask, name="cross3")
                o = run_schedule(inst, (), mode="sync")
                ctx.count("cross_layout_runs")
                if o.outcome != "ok":
                    continue
                if ref3 is None:
                    ref3 = o
                    continue
                nb = int(np.sum(np.isnan(o.bkg) != np.isnan(ref3.bkg)))
                nr = int(np.sum(np.isnan(o.rms) != np.isnan(ref3.rms)))
                db = float(np.nanmax(np.abs(o.bkg.astype(float) - ref3.bkg.astype(float)))) if np.isfinite(o.bkg).any() else 0.0
                dr = float(np.nanmax(np.abs(o.rms.astype(float) - ref3.rms.astype(float)))) if np.isfinite(o.rms).any() else 0.0
                worst3 = max(worst3, db, dr)
                if nb or nr or max(db, dr) > 0.25:
                    ctx.violation("blank band '%s', mask=%s: the maps for %d requested stripes differ from the single-stripe maps: %d / %d pixels are blank in one "
                                  "and finite in the other (bkg / rms), finite pixels differ by up to %.3g / %.3g local sigma" % (band_name, mask, nslice, nb, nr, db, dr),
                                  "stripe_dependence|band=%s,mask=%s,nslice=%d" % (band_name, mask, nslice), clause="cross_layout", case=dict(nslice=nslice, cores=cores))
    cov["cross_layout"] = dict(max_abs_difference_in_sigma=worst, max_abs_difference_nonsquare_box=worst2, max_abs_difference_blank_bands=worst3, threshold=0.25,
                               image=[rows, cols], grid=grid, box=box)


def evaluate(clause, case, ctx):
    """replay without the explorer"""
    logging.disable(logging.CRITICAL)
    scratch = os.environ.get("VERIF_SCRATCH", "/dev/shm")
    if clause == "schedule":
        inst = dict(case["inst"])
        f = os.path.join(scratch, "c07_replay_%d.fits" % os.getpid())
        E.make_image(f, inst["shape"][0], inst["shape"][1], nan_block=case.get("nan_block", True), seed=case.get("image_seed", 3))
        inst["file"] = f
        o = run_schedule(inst, case["choices"], fault=tuple(case["fault"]) if case.get("fault") else None, mode=case.get("mode", "mem"))
        os.remove(f)
        print("replayed schedule: outcome=%s %s leaked=%r" % (o.outcome, o.detail, o.leaked))
        if case.get("fault"):
            if o.outcome != "raised" or o.leaked:
                ctx.violation("fault run: %s %s leaked=%r" % (o.outcome, o.detail, o.leaked), "replay")
        elif o.outcome != "ok" or o.leaked:
            ctx.violation("schedule: %s %s leaked=%r" % (o.outcome, o.detail, o.leaked), "replay")
    elif clause == "timers":
        timers(ctx, scratch, {})
    elif clause == "cross_layout":
        cov = {}
        cross_layout(ctx, scratch, cov)
    elif clause == "layout":
        rows, g, cores, nslice = case["config"]
        print(layout(rows, 1, tuple(g), (max(4, g[0]), max(4, g[1])), cores, nslice)["regions"])
