"""C02 Islands are exactly the seeded, flood-thresholded 8-connected pixel groups (E1, bounded-exhaustive)."""
import itertools

import numpy as np

from AegeanTools import source_finder as sfm
from mc import core
from mc.oracles import floodfill

PROPERTY = "C02"
LEVEL = "exploration"
SHARDS = 16
RULE = ("ALL images over a signal-to-noise alphabet on small grids (every assignment of a letter to every pixel), "
        "each realised through three (image, background, noise) variants and two seed thresholds at flood 4; a slice of the grids "
        "again under flood = seed in {4, 4.5, 5, 6} and (4.5, 6), (5, 6) with letters exactly on those thresholds; non-trivial = "
        "image with at least one pixel at or above the flood threshold; distinct = distinct (grid, alphabet, image)")
ASSUMPTIONS = ["main sweep flood = 4, seeds {5, 7}; letters are exactly representable so that threshold ties are exact",
               "the island's pixel set is read from PixelIsland.bounding_box and PixelIsland.mask (False = member)",
               "component-origin clause is decided on a slice of rendered scenes through the full finder"]

FLOOD = 4.0
SEEDS = (5.0, 7.0)
L = dict(O=0.0, F=4.5, S=6.0, B=9.0, N=np.nan, M=-6.0, E=4.0, T=5.0, W=-9.0, G=7.0,
         # double-precision values a few parts in 1e8 from a threshold (single precision cannot tell them from it):
         e=4.0 * (1 - 3e-8), u=5.0 * (1 + 3e-8), m=-4.0 * (1 - 3e-8), f=4.0 * (1 + 3e-8), t=5.0 * (1 - 3e-8))
BLOCK = 4096

GRIDS_QUICK = [((1, 3), "OeufSt"), ((2, 2), "OeumS"), ((1, 4), "eufS"), ((1, 1), "OFSBNMETW"), ((1, 2), "OFSBNMETW"), ((1, 3), "OFSBNMET"), ((1, 4), "OFSBNM"), ((1, 5), "OFSBN"),
               ((5, 1), "OFSBN"), ((2, 2), "OFSBNMETWG"), ((3, 3), "OFS"), ((2, 3), "OFSBNME"), ((3, 3), "OFB")]
GRIDS_THOROUGH = GRIDS_QUICK + [((3, 3), "OFSN"), ((3, 3), "OFBM"), ((3, 4), "OFS"), ((4, 3), "OFB"), ((4, 4), "OS"),
                                ((2, 4), "OFSBN"), ((4, 4), "OF"), ((2, 3), "OFSBNMETW"), ((3, 5), "OF"), ((3, 5), "OS")]


CLIPS = [[4.0, [4.0]], [4.5, [4.5, 6.0]], [5.0, [5.0, 6.0]], [6.0, [6.0]]]       # [flood, seeds]
CLIP_GRIDS = [((1, 1), "OFSBNMETW"), ((1, 2), "OFSBNMETW"), ((1, 3), "OFSBNMET"), ((2, 2), "OEFTSNM"), ((2, 3), "OEFTS")]
CLIP_GRIDS_T = [((3, 3), "OET"), ((3, 3), "OFS"), ((2, 4), "OEFTS")]


def grids(tier):
    return GRIDS_QUICK if tier == "quick" else GRIDS_THOROUGH


def axes(tier, seed):
    return dict(grids=[dict(shape=g, alphabet=a, images=len(a) ** (g[0] * g[1])) for g, a in grids(tier)],
                letters={k: (None if v != v else v) for k, v in L.items()}, flood=FLOOD, seeds=SEEDS,
                variants=["constant bkg=0 rms=1", "im=0 everywhere, signal carried by bkg (exact zeros inside islands)",
                          "checkerboard rms 0.5/2", "blank in the background map only (finite image)"])


def cases(tier, seed):
    for g, a in grids(tier):
        n = len(a) ** (g[0] * g[1])
        for b in range(0, n, BLOCK):
            yield "islands", dict(shape=list(g), alphabet=a, start=b, stop=min(n, b + BLOCK))
    # other threshold pairs, including flood == seed (the property quantifies over all 0 < flood <= seed): the letters
    # E=4, F=4.5, T=5, S=6 sit exactly on these thresholds
    for g, a in CLIP_GRIDS if tier == "quick" else CLIP_GRIDS + CLIP_GRIDS_T:
        n = len(a) ** (g[0] * g[1])
        for b in range(0, n, BLOCK):
            yield "islands", dict(shape=list(g), alphabet=a, start=b, stop=min(n, b + BLOCK), clips=CLIPS)
    for g, a in [((2, 4), "OFS"), ((1, 5), "OFSB")]:
        n = len(a) ** (g[0] * g[1])
        for b in range(0, n, 1024):
            yield "region_subset", dict(shape=list(g), alphabet=a, start=b, stop=min(n, b + 1024))
    for rot, arm, off, level in itertools.product(range(4), (8, 11), (0, 1, 2), (4.2, 4.9)):
        yield "components", dict(rot=rot, arm=arm, off=off, level=level)


def realise(snr, variant):
    """(im, bkg, rms) with (im - bkg)/rms == snr exactly; NaN letters become blank image pixels"""
    shape = snr.shape
    if variant == 0:
        return snr.copy(), np.zeros(shape), np.ones(shape)
    if variant == 1:
        im = np.where(np.isnan(snr), np.nan, 0.0)
        return im, -np.nan_to_num(snr), np.ones(shape)
    if variant == 3:
        # the blank lives in the BACKGROUND map; the image itself is finite there.  (variant 4, a blank in the noise map, is
        # not enumerated: the property quantifies over noise maps with rms > 0)
        return np.nan_to_num(snr), np.where(np.isnan(snr), np.nan, 0.0), np.ones(shape)
    if variant == 4:
        return np.nan_to_num(snr), np.zeros(shape), np.where(np.isnan(snr), np.nan, 1.0)
    if variant == 5:
        # a uniform background of -4.5: pixels with the letter F (above the flood clip, below the seeds) have the pixel VALUE
        # exactly 0.0 while being island members - membership is a matter of (im - bkg)/rms, never of the stored value
        # (all subtractions are exact for the upper-case letters: Sterbenz, or small dyadic rationals)
        return snr - 4.5, np.full(shape, -4.5), np.ones(shape)
    rms = np.where((np.add.outer(np.arange(shape[0]), np.arange(shape[1])) % 2) == 0, 0.5, 2.0)
    return snr * rms, np.zeros(shape), rms


def observed(islands, shape):
    out = set()
    problems = []
    for isl in islands:
        (xmin, xmax), (ymin, ymax) = [tuple(int(v) for v in b) for b in isl.bounding_box]
        m = np.asarray(isl.mask)
        if m.shape != (xmax - xmin, ymax - ymin):
            problems.append("mask shape %r does not match bounding box %r" % (m.shape, ((xmin, xmax), (ymin, ymax))))
            rr, cc = np.where(~m.astype(bool))
        else:
            rr, cc = np.where(~m.astype(bool))
        pix = frozenset((int(r) + xmin, int(c) + ymin) for r, c in zip(rr, cc))
        out.add((pix, (xmin, xmax, ymin, ymax)))
    return out, problems


def fmt(s):
    return sorted((sorted(p), b) for p, b in s)


def ev_islands(case, ctx):
    shape = tuple(case["shape"])
    alpha = case["alphabet"]
    ncell = shape[0] * shape[1]
    vals = np.array([L[ch] for ch in alpha])
    base = len(alpha)
    for idx in range(case["start"], case["stop"]):
        digits = []
        k = idx
        for _ in range(ncell):
            digits.append(k % base)
            k //= base
        snr = vals[np.array(digits[::-1])].reshape(shape)
        word = "".join(alpha[d] for d in digits[::-1])
        clips = case.get("clips") or [[FLOOD, list(SEEDS)]]
        if np.any(np.abs(np.nan_to_num(snr)) >= min(c[0] for c in clips)):
            ctx.nontrivial_n(1)
        variants = (0, 1, 2, 3) if "N" in alpha and not case.get("clips") else (0, 1, 2)
        if "F" in alpha and alpha.upper() == alpha:
            variants = variants + (5,)
        for variant, (FLOOD_, SEEDS_) in itertools.product(variants, clips):
            im, bkg, rms = realise(snr, variant)
            res = {}
            for seed in SEEDS_:
                ctx.count("find_islands_call")
                sig = "%dx%d:%s,v%d,seed%g" % (shape[0], shape[1], word, variant, seed) + ("" if FLOOD_ == FLOOD else ",flood%g" % FLOOD_)
                ref = floodfill.islands(im, bkg, rms, seed, FLOOD_)
                try:
                    with np.errstate(invalid="ignore"):
                        a_im, a_bkg, a_rms = im.copy(), bkg.copy(), rms.copy()
                        isl = sfm.find_islands(a_im, a_bkg, a_rms, seed_clip=seed, flood_clip=FLOOD_)
                    if not (np.array_equal(a_im, im, equal_nan=True) and np.array_equal(a_bkg, bkg, equal_nan=True) and np.array_equal(a_rms, rms, equal_nan=True)):
                        ctx.violation("find_islands changed its caller's image / background / noise array (snr=%s variant %d seed %g): %d image pixels differ" % (
                            word, variant, seed, int(np.sum(~((a_im == im) | (np.isnan(a_im) & np.isnan(im)))))), "input_mutated|" + sig)
                except Exception as e:
                    ctx.violation("find_islands raised %r on snr=%s variant %d seed %g" % (e, word, variant, seed),
                                  "raise|" + sig)
                    ctx.outcome("raise")
                    continue
                obs, problems = observed(isl, shape)
                res[seed] = obs
                ctx.outcome("n=%d" % len(ref))
                for pr in problems:
                    ctx.violation("%s (snr=%s variant %d seed %g)" % (pr, word, variant, seed), "maskshape|" + sig)
                if len(isl) != len(obs):
                    ctx.violation("duplicate islands returned (snr=%s)" % word, "duplicate|" + sig)
                if obs != ref:
                    op = set(p for p, b in obs)
                    rp = set(p for p, b in ref)
                    kind = "islands" if op != rp else "bbox"
                    ctx.violation("snr=%s (%dx%d, variant %d, seed %g, flood %g): got %r expected %r" % (
                        word, shape[0], shape[1], variant, seed, FLOOD_, fmt(obs), fmt(ref)), "%s_differ|%s" % (kind, sig))
                # disjoint, no blank member (independent of the oracle)
                allpix = [p for s, b in obs for p in s]
                if len(allpix) != len(set(allpix)):
                    ctx.violation("islands overlap (snr=%s)" % word, "overlap|" + sig)
                if any(not np.isfinite((im[p] - bkg[p]) / rms[p]) for p in allpix if 0 <= p[0] < shape[0] and 0 <= p[1] < shape[1]):
                    ctx.violation("blank pixel inside an island (snr=%s)" % word, "blank_member|" + sig)
            if len(res) == 2:
                hi = set(p for p, b in res[SEEDS_[1]])
                lo = set(p for p, b in res[SEEDS_[0]])
                if not hi <= lo:
                    ctx.violation("raising the seed added islands (snr=%s variant %d)" % (word, variant),
                                  "monotone|%dx%d:%s,v%d" % (shape[0], shape[1], word, variant))


def ev_region_subset(case, ctx):
    """with a region (and WCS) islands are selected, never clipped: every island returned is one of the unrestricted islands,
    pixel set and bounding box unchanged"""
    from AegeanTools.regions import Region
    from AegeanTools.wcs_helpers import WCSHelper
    from mc.oracles import wcs_zenithal as wz
    shape = tuple(case["shape"])
    alpha = case["alphabet"]
    ncell = shape[0] * shape[1]
    vals = np.array([L[ch] for ch in alpha])
    base = len(alpha)
    hdr = wz.make_header("SIN", (50.0, -30.0), 1.0, shape, beam=(3.0, 3.0, 0.0))
    wcs = WCSHelper.from_header(wz.to_fits_header(hdr))
    regs = []
    for col in (0.0, shape[1] / 2.0):
        ra0, dec0 = wz.pix2sky(hdr, col + 1.0, 1.0)
        r = Region(maxdepth=8)
        r.add_circles(np.radians(float(ra0)), np.radians(float(dec0)), np.radians(1.2))
        regs.append(r)
    import copy
    for idx in range(case["start"], case["stop"]):
        digits = []
        k = idx
        for _ in range(ncell):
            digits.append(k % base)
            k //= base
        snr = vals[np.array(digits[::-1])].reshape(shape)
        word = "".join(alpha[d] for d in digits[::-1])
        im, bkg, rms = realise(snr, 0)
        with np.errstate(invalid="ignore"):
            full, _ = observed(sfm.find_islands(im.copy(), bkg.copy(), rms.copy(), seed_clip=5.0, flood_clip=FLOOD), shape)
        for ri, r in enumerate(regs):
            ctx.count("find_islands_region_call")
            sig = "%dx%d:%s,region%d" % (shape[0], shape[1], word, ri)
            try:
                with np.errstate(invalid="ignore"):
                    part, _ = observed(sfm.find_islands(im.copy(), bkg.copy(), rms.copy(), seed_clip=5.0, flood_clip=FLOOD, region=copy.deepcopy(r), wcs=wcs), shape)
            except Exception as e:
                ctx.violation("find_islands(region=) raised %r on snr=%s" % (e, word), "region_raise|" + sig)
                continue
            if full and len(part) < len(full):
                ctx.nontrivial_n(1)
            if not set(part) <= set(full):
                ctx.violation("snr=%s (%dx%d): with a region the islands %r are returned; they are not among the islands without a region %r" % (
                    word, shape[0], shape[1], fmt(set(part) - set(full)), fmt(full)), "region_clipped|" + sig)
        ctx.outcome("region_subset")


def ev_components(case, ctx):
    """no reported component originates from a pixel group that fails the rule: a faint (flood-level only) L-shaped
    group whose bounding box contains a bright source, run through the full finder"""
    import os
    from checks import scenes
    from mc.oracles import skygauss
    from mc.oracles import wcs_zenithal as wz
    rot, arm, off, level = case["rot"], case["arm"], case["off"], case["level"]
    shape = (48, 52)
    hdr = scenes.scene_header(shape)
    rms = 0.01
    img = np.zeros(shape)
    r0, c0 = 14, 16
    L = [(r0 + k, c0) for k in range(arm)] + [(r0 + arm - 1, c0 + k) for k in range(arm)]
    for _ in range(rot):
        L = [(c, shape[0] - 1 - r) for r, c in L]
        L = [(r, c) for r, c in L]
    L = [(int(np.clip(r, 1, shape[0] - 2)), int(np.clip(c, 1, shape[1] - 2))) for r, c in L]
    rr = [p[0] for p in L]
    cc = [p[1] for p in L]
    # the bright source sits inside the L's bounding box, in the corner away from both arms
    corner = {0: (min(rr) + 1, max(cc) - 1), 1: (min(rr) + 1, min(cc) + 1), 2: (max(rr) - 1, min(cc) + 1), 3: (max(rr) - 1, max(cc) - 1)}[rot % 4]
    src = skygauss.source_at_pixel(hdr, corner[0] + 0.3 * off, corner[1] - 0.2 * off, 1.0, 3.2, 2.6, 30.0)
    img += skygauss.render(hdr, shape, [src])
    for p in L:
        img[p] = max(img[p], level * rms)
    f = os.path.join(os.environ["VERIF_SCRATCH"], "c02c.fits")
    scenes.write_image(f, hdr, img)
    img32 = np.asarray(img, dtype=np.float32).astype(float)
    ref = floodfill.islands(img32, np.zeros(shape), np.full(shape, rms), 5.0, 4.0)
    allref = floodfill.islands(img32, np.zeros(shape), np.full(shape, rms), -1.0, 4.0)   # every flood-level group
    sig = "components:rot=%d,arm=%d,off=%d,level=%g" % (rot, arm, off, level)
    ctx.count("finder_runs")
    if len(allref) > len(ref):
        ctx.nontrivial_n(1)       # there is a group that fails the seed rule
    try:
        out = scenes.finder().find_sources_in_image(f, rms=rms, bkg=0.0, cores=1, docov=False, innerclip=5, outerclip=4)
    except Exception as e:
        ctx.violation("finder raised %r (%s)" % (e, sig), "raise|" + sig)
        return
    ctx.outcome("components=%d,islands=%d,groups=%d" % (len(out), len(ref), len(allref)))
    for s_ in out:
        x, y = wz.sky2pix(hdr, s_.ra, s_.dec)
        r, c = float(y) - 1, float(x) - 1
        ok = any(any(abs(r - p[0]) <= 1.5 and abs(c - p[1]) <= 1.5 for p in pix) for pix, box in ref)
        if not ok:
            ctx.violation("component at pixel (%.2f, %.2f), peak %.4g, does not belong to any pixel group that satisfies the seed/flood "
                          "rule (%d valid islands) (%s)" % (r, c, s_.peak_flux, len(ref), sig), "component_origin|" + sig)
    if len(set(s_.island for s_ in out)) > len(ref):
        ctx.violation("%d islands produced components, only %d pixel groups satisfy the rule (%s)" % (len(set(s_.island for s_ in out)), len(ref), sig),
                      "component_island_count|" + sig)


def evaluate(clause, case, ctx):
    if clause == "islands":
        ev_islands(case, ctx)
    elif clause == "region_subset":
        ev_region_subset(case, ctx)
    else:
        ev_components(case, ctx)
