"""C15 Compress then expand restores shape, WCS and grid-node values (E1, bounded-exhaustive)."""
import itertools
import os

import numpy as np
from astropy.io import fits

from AegeanTools import fits_tools
from mc import core
from mc.oracles import wcs_zenithal as wz

PROPERTY = "C15"
LEVEL = "exploration"
SHARDS = 16
RULE = ("all shapes (rows, cols) in the listed square plus extras x factors x {CDELT, CD} x {file, in-memory HDUList} "
        "x image {row/col ramp, bilinear-between-nodes random, arbitrary random}; one case = one shape, all other "
        "axes looped inside; histories: per factor every ordered pair (A, B) of 24 shapes, expand A, B, A in one process (file and HDU list); non-trivial = factor >= 2 and the image has at least one complete cell or a residual; "
        "distinct = distinct (shape, factor, header kind, input kind, image kind)")
ASSUMPTIONS = ["'linear between nodes' images are built by bilinear interpolation of random node values on the "
               "decimation grid, with the node values dyadic so float32 storage is exact",
               "exactness on complete cells is tested to 4 float32 ulp of the largest node value",
               "Aegean acceptance is tested through fits_tools.load_image_band and SourceFinder._load_aux_image"]

FACT_Q = [1, 2, 3, 4, 7, 16]
FACT_T = [1, 2, 3, 4, 5, 7, 8, 16, 33, 64]


def axes(tier, seed):
    return dict(shapes="[2..10]^2" if tier == "quick" else "[2..20]^2 + (33,65),(100,7),(7,100),(64,64),(65,65)",
                factors=FACT_Q if tier == "quick" else FACT_T, header=["CDELT", "CD (diagonal)", "CD (rotated 17 deg)", "CD + CDELT"], input=["file", "hdulist"],
                image=["ramp", "nodelinear", "arbitrary"])


def cases(tier, seed):
    hi = 10 if tier == "quick" else 20
    shapes = [(r, c) for r in range(2, hi + 1) for c in range(2, hi + 1)]
    if tier != "quick":
        shapes += [(33, 65), (100, 7), (7, 100), (64, 64), (65, 65)]
    for sh in shapes:
        yield "roundtrip", dict(shape=list(sh))
    aux = [(r, c) for r in (2, 5, 9, 16, 17) for c in (2, 6, 11, 16)]
    for sh in aux:
        yield "aegean_accepts", dict(shape=list(sh))
    yield "sr6_cli", dict()
    for sh, grid, hk in itertools.product([(40, 37), (33, 48), (64, 64)], [(4, 4), (8, 5)], ["CDELT", "CD", "CDrot"]):
        yield "bane_files", dict(shape=list(sh), grid=list(grid), hdr=hk)
    # histories: every ordered pair (A, B) of shapes of SEQ_SHAPES, per factor: expand A, expand B, expand A again in
    # one process (state carried between calls must not leak from one image into the next)
    for factor in (FACT_Q if tier == "quick" else FACT_T):
        if factor < 2:
            continue
        for sh in SEQ_SHAPES:
            yield "sequence", dict(factor=factor, first=list(sh))


SEQ_SHAPES = [(r, c) for r in (3, 5, 7, 8, 9, 12, 13, 16) for c in (2, 6, 9)]


def _rng(seed, *k):
    import zlib
    return np.random.RandomState(zlib.crc32(repr((seed,) + k).encode()) % (2 ** 31))


def make_image(kind, shape, factor, seed):
    rows, cols = shape
    if kind == "ramp":
        return (3.0 * np.arange(rows)[:, None] - 2.0 * np.arange(cols)[None, :] + 7).astype(np.float32)
    rs = _rng(seed, kind, rows, cols, factor)
    if kind == "arbitrary":
        return (rs.randint(-2 ** 12, 2 ** 12, size=shape) / 16.0).astype(np.float32)
    # bilinear between nodes: node values on multiples of `factor`, grid extended past the edge
    nr = rows // factor + 2
    nc = cols // factor + 2
    nodes = rs.randint(-2 ** 10, 2 ** 10, size=(nr, nc)).astype(np.float64) * factor * factor
    r = np.arange(rows)
    c = np.arange(cols)
    r0 = r // factor
    c0 = c // factor
    fr = (r % factor) / float(factor)
    fc = (c % factor) / float(factor)
    img = (nodes[r0][:, c0] * (1 - fr)[:, None] * (1 - fc)[None, :]
           + nodes[r0 + 1][:, c0] * fr[:, None] * (1 - fc)[None, :]
           + nodes[r0][:, c0 + 1] * (1 - fr)[:, None] * fc[None, :]
           + nodes[r0 + 1][:, c0 + 1] * fr[:, None] * fc[None, :])
    return img.astype(np.float32)


def _mkhdu(img, shape, cd, seed):
    """cd: False (CDELT), True (diagonal CD matrix) or "rot" (CD matrix of a rotated image: non-zero CD1_2, CD2_1)"""
    hdr = wz.make_header("SIN", (33.0 + core.seed_shift(seed, 2, 50), -27.0), 15.0 / 3600, shape,
                         crpix=(shape[1] / 2.0 + 0.5, shape[0] / 3.0 + 1.25), cd_matrix=bool(cd))
    if cd == "both":
        # legal FITS: CDELT kept beside a (diagonal) CD matrix for old readers
        hdr.update(CDELT1=hdr["CD1_1"], CDELT2=hdr["CD2_2"])
    if cd == "rot":
        c_, s_ = np.cos(np.radians(17.0)), np.sin(np.radians(17.0))
        d_ = 15.0 / 3600
        hdr.update(CD1_1=-d_ * c_, CD1_2=d_ * s_, CD2_1=d_ * s_, CD2_2=d_ * c_)
    return fits.HDUList([fits.PrimaryHDU(data=img.copy(), header=wz.to_fits_header(hdr))]), hdr


WCSKEYS_CDELT = ["CRPIX1", "CRPIX2", "CDELT1", "CDELT2", "CRVAL1", "CRVAL2"]
WCSKEYS_CD = ["CRPIX1", "CRPIX2", "CD1_1", "CD2_2", "CD1_2", "CD2_1", "CRVAL1", "CRVAL2"]


def ev_roundtrip(case, ctx):
    shape = tuple(case["shape"])
    rows, cols = shape
    d = os.environ["VERIF_SCRATCH"]
    factors = FACT_Q if ctx.tier == "quick" else FACT_T
    for factor in factors:
        for cd in (False, True, "rot", "both"):
            for inp in ("file", "hdulist"):
                for kind in ("ramp", "nodelinear", "arbitrary"):
                    ctx.count("roundtrip")
                    sig = "shape=%dx%d,f=%d,%s,%s,%s" % (rows, cols, factor, {False: "CDELT", True: "CD", "rot": "CDrot", "both": "CD+CDELT"}[cd], inp, kind)
                    img = make_image(kind, shape, factor, ctx.seed)
                    hl, hdr = _mkhdu(img, shape, cd, ctx.seed)
                    try:
                        if inp == "file":
                            f = os.path.join(d, "in.fits")
                            fo = os.path.join(d, "c.fits")
                            fe = os.path.join(d, "e.fits")
                            hl.writeto(f, overwrite=True)
                            comp = fits_tools.compress(f, factor, outfile=fo)
                            if comp is None:
                                raise RuntimeError("compress returned None")
                            cdata = np.array(fits.getdata(fo), dtype=np.float64)
                            out = fits_tools.expand(fo, outfile=fe)
                            with fits.open(fe) as o:
                                odata = np.array(o[0].data, dtype=np.float64)
                                ohdr = dict(o[0].header)
                        else:
                            comp = fits_tools.compress(hl, factor)
                            if comp is None:
                                raise RuntimeError("compress returned None")
                            cdata = np.array(comp[0].data, dtype=np.float64)
                            if not fits_tools.is_compressed(comp[0].header):
                                ctx.violation("compressed HDU lacks BN_* keywords", "nokeys|" + sig)
                            out = fits_tools.expand(comp)
                            odata = np.array(out[0].data, dtype=np.float64)
                            ohdr = dict(out[0].header)
                    except Exception as e:
                        ctx.violation("compress/expand raised %r for %s" % (e, sig), "raise|" + sig)
                        ctx.outcome("raise")
                        continue
                    if factor >= 2:
                        ctx.nontrivial(sig)
                    if odata.shape != shape:
                        ctx.violation("expanded shape %r != %r (%s)" % (odata.shape, shape, sig), "shape|" + sig)
                        ctx.outcome("shape")
                        continue
                    for k in ((WCSKEYS_CD + ["CDELT1", "CDELT2"]) if cd == "both" else WCSKEYS_CD if cd else WCSKEYS_CDELT):
                        if k not in ohdr or abs(ohdr[k] - hdr[k]) > 1e-12 * max(1.0, abs(hdr[k])):
                            ctx.violation("%s not restored: %r -> %r (%s)" % (k, hdr[k], ohdr.get(k), sig),
                                          "wcskey_%s|%s" % (k, sig))
                    left = [k for k in ohdr if str(k).startswith("BN_")]
                    if left:
                        ctx.violation("compression keywords left after expand: %r" % left, "bnkeys|" + sig)
                    img64 = img.astype(np.float64)
                    if not np.array_equal(odata[::factor, ::factor], img64[::factor, ::factor]):
                        bad = np.argwhere(odata[::factor, ::factor] != img64[::factor, ::factor])[0]
                        ctx.violation("node value changed at node %r: %r -> %r (%s)" % (
                            bad.tolist(), img64[::factor, ::factor][tuple(bad)], odata[::factor, ::factor][tuple(bad)], sig),
                            "nodes|" + sig)
                    lo, hi = np.nanmin(cdata), np.nanmax(cdata)
                    slack = 4 * np.finfo(np.float32).eps * max(abs(lo), abs(hi), 1.0)
                    if np.nanmin(odata) < lo - slack or np.nanmax(odata) > hi + slack or not np.all(np.isfinite(odata)):
                        ctx.violation("expanded values [%r, %r] leave the range of the samples [%r, %r] (%s)" % (
                            np.nanmin(odata), np.nanmax(odata), lo, hi, sig), "range|" + sig)
                    if kind in ("ramp", "nodelinear"):
                        # complete cells: rows < (rows-1)//factor*factor + 1, same for columns
                        rc = (rows - 1) // factor * factor + 1
                        cc = (cols - 1) // factor * factor + 1
                        a = odata[:rc, :cc]
                        b = img64[:rc, :cc]
                        tol = 4 * np.finfo(np.float32).eps * max(1.0, np.max(np.abs(img64)))
                        err = np.max(np.abs(a - b))
                        ctx.note_max("complete_cell_err_over_tol", err / tol)
                        if err > tol:
                            w = np.unravel_index(np.argmax(np.abs(a - b)), a.shape)
                            ctx.violation("node-linear image not reproduced on complete cells: pixel %r %r -> %r (%s)" % (
                                tuple(int(x) for x in w), b[w], a[w], sig), "linear|" + sig)
                    ctx.outcome("ok")


def ev_aegean_accepts(case, ctx):
    from AegeanTools.source_finder import SourceFinder
    shape = tuple(case["shape"])
    d = os.environ["VERIF_SCRATCH"]
    sf = SourceFinder()
    for factor in (1, 2, 3, 5, 16):
        ctx.count("aegean_accepts")
        sig = "shape=%dx%d,f=%d" % (shape[0], shape[1], factor)
        img = make_image("nodelinear", shape, factor, ctx.seed)
        hl, hdr = _mkhdu(img, shape, False, ctx.seed)
        f = os.path.join(d, "a.fits")
        fc = os.path.join(d, "ac.fits")
        hl.writeto(f, overwrite=True)
        fits_tools.compress(f, factor, outfile=fc)
        ctx.nontrivial(sig)
        try:
            plain, _ = fits_tools.load_image_band(f)
            data, h2 = fits_tools.load_image_band(fc)
            aux = sf._load_aux_image(img, fc)
        except Exception as e:
            ctx.violation("compressed aux file rejected: %r (%s)" % (e, sig), "accept_raise|" + sig)
            continue
        if data.shape != shape or aux.shape != shape or plain.shape != shape:
            ctx.violation("compressed aux file loads with shape %r, image %r" % (data.shape, shape), "accept_shape|" + sig)
        if not np.array_equal(np.asarray(aux)[::factor, ::factor], img[::factor, ::factor]):
            ctx.violation("compressed aux file loads with changed node values (%s)" % sig, "accept_nodes|" + sig)


def ev_bane_files(case, ctx):
    """the compressed background / noise files as BANE itself writes them (--compress): expanding them restores the image's
    shape and WCS keywords, and Aegean accepts them"""
    from AegeanTools import BANE
    from AegeanTools.source_finder import SourceFinder
    shape = tuple(case["shape"])
    grid = tuple(case["grid"])
    d = os.environ["VERIF_SCRATCH"]
    sig = "bane_files:shape=%dx%d,grid=%dx%d,%s" % (shape + grid + (case["hdr"],))
    ctx.count("bane_files")
    ctx.nontrivial(sig)
    rs = _rng(ctx.seed, "bane", shape)
    img = (np.round(rs.normal(0, 1, size=shape) * 256) / 256 + 0.05 * np.arange(shape[0])[:, None]).astype(np.float32)
    hl, hdr = _mkhdu(img, shape, dict(CDELT=False, CD=True, CDrot="rot")[case["hdr"]], ctx.seed)
    f = os.path.join(d, "bf.fits")
    ob = os.path.join(d, "bf_out")
    hl.writeto(f, overwrite=True)
    try:
        BANE.filter_image(f, ob, step_size=grid, box_size=(grid[0] * 4, grid[1] * 4), cores=1, compressed=True)
    except Exception as e:
        ctx.violation("BANE with compressed output raised %r (%s)" % (e, sig), "bane_raise|" + sig)
        return
    keys = WCSKEYS_CDELT if case["hdr"] == "CDELT" else WCSKEYS_CD
    sf = SourceFinder()
    for sfx in ("bkg", "rms"):
        fn = "%s_%s.fits" % (ob, sfx)
        try:
            ex = fits_tools.expand(fn)
            odata = np.array(ex[0].data)
            oh = dict(ex[0].header)
            aux = sf._load_aux_image(img, fn)
        except Exception as e:
            ctx.violation("the %s file written by BANE --compress cannot be expanded / loaded: %r (%s)" % (sfx, e, sig), "bane_expand|%s,%s" % (sig, sfx))
            continue
        if odata.shape != shape or np.shape(aux) != shape:
            ctx.violation("the %s file written by BANE --compress expands to %r / loads as %r, image %r (%s)" % (sfx, odata.shape, np.shape(aux), shape, sig),
                          "bane_shape|%s,%s" % (sig, sfx))
        for k in keys:
            if k not in oh or abs(oh[k] - hdr[k]) > 1e-9 * max(1.0, abs(hdr[k])):
                ctx.violation("the %s file written by BANE --compress: %s = %r after expanding, the image has %r (%s)" % (sfx, k, oh.get(k), hdr[k], sig),
                              "bane_wcskey_%s|%s,%s" % (k, sig, sfx))
        left = [k for k in oh if str(k).startswith("BN_")]
        if left:
            ctx.violation("compression keywords left after expanding BANE's %s file: %r (%s)" % (sfx, left, sig), "bane_bnkeys|%s,%s" % (sig, sfx))
        os.remove(fn)
    ctx.outcome("bane_files")


def ev_sr6_cli(case, ctx):
    from AegeanTools.CLI import SR6
    d = os.environ["VERIF_SCRATCH"]
    for shape in [(9, 12), (16, 16), (5, 31)]:
        for factor in (2, 4, 7):
            ctx.count("sr6_cli")
            sig = "shape=%dx%d,f=%d" % (shape[0], shape[1], factor)
            ctx.nontrivial("cli" + sig)
            img = make_image("nodelinear", shape, factor, ctx.seed)
            hl, hdr = _mkhdu(img, shape, False, ctx.seed)
            f, fc, fe = [os.path.join(d, n) for n in ("s.fits", "sc.fits", "se.fits")]
            hl.writeto(f, overwrite=True)
            try:
                SR6.main(["-f", str(factor), "-o", fc, f])
                SR6.main(["-x", "-o", fe, fc])
                out = fits.getdata(fe)
                oh = fits.getheader(fe)
            except Exception as e:
                ctx.violation("SR6 CLI failed: %r (%s)" % (e, sig), "cli_raise|" + sig)
                continue
            if out.shape != shape or not np.array_equal(out[::factor, ::factor], img[::factor, ::factor]) \
                    or abs(oh["CRPIX1"] - hdr["CRPIX1"]) > 1e-9 or any(k.startswith("BN_") for k in oh):
                ctx.violation("SR6 compress+expand does not restore the image (%s)" % sig, "cli|" + sig)


def ev_sequence(case, ctx):
    factor, first = case["factor"], tuple(case["first"])
    d = os.environ["VERIF_SCRATCH"]

    def one(shape, via, tag):
        img = make_image("ramp", shape, factor, ctx.seed)
        hl, hdr = _mkhdu(img, shape, False, ctx.seed)
        if via == "file":
            f, fo = os.path.join(d, "sq_in.fits"), os.path.join(d, "sq_c.fits")
            hl.writeto(f, overwrite=True)
            fits_tools.compress(f, factor, outfile=fo)
            out = fits_tools.expand(fo)
        else:
            out = fits_tools.expand(fits_tools.compress(hl, factor))
        odata = np.array(out[0].data, dtype=np.float64)
        oh = out[0].header
        if odata.shape != shape or (oh["NAXIS2"], oh["NAXIS1"]) != shape:
            ctx.violation("%s: expanded shape %r (header NAXIS2,NAXIS1 = %r,%r), original %r" % (
                tag, odata.shape, oh["NAXIS2"], oh["NAXIS1"], shape), "seq_shape|" + tag)
            return False
        rc = (shape[0] - 1) // factor * factor + 1
        cc = (shape[1] - 1) // factor * factor + 1
        err = np.max(np.abs(odata[:rc, :cc] - img[:rc, :cc].astype(np.float64)))
        if not err <= 4 * np.finfo(np.float32).eps * np.max(np.abs(img)):
            ctx.violation("%s: ramp not reproduced on complete cells (error %.4g)" % (tag, err), "seq_values|" + tag)
            return False
        for k in WCSKEYS_CDELT:
            if abs(oh[k] - hdr[k]) > 1e-12 * max(1.0, abs(hdr[k])):
                ctx.violation("%s: %s not restored: %r -> %r" % (tag, k, hdr[k], oh[k]), "seq_wcs|" + tag)
                return False
        return True

    for second in SEQ_SHAPES:
        for via in ("hdulist", "file"):
            ctx.count("sequence")
            sig = "f=%d,%dx%d_then_%dx%d,%s" % (factor, first[0], first[1], second[0], second[1], via)
            if second != first:
                ctx.nontrivial(sig)
            try:
                ok = [one(sh, via, "%s step %d (%dx%d)" % (sig, k, sh[0], sh[1])) for k, sh in enumerate((first, second, first))]
            except Exception as e:
                ctx.violation("compress/expand raised %r in history %s" % (e, sig), "seq_raise|" + sig)
                ctx.outcome("seq:raise")
                continue
            ctx.outcome("seq:ok" if all(ok) else "seq:bad")


CLAUSES = dict(bane_files=ev_bane_files, sequence=ev_sequence, roundtrip=ev_roundtrip, aegean_accepts=ev_aegean_accepts, sr6_cli=ev_sr6_cli)


def evaluate(clause, case, ctx):
    CLAUSES[clause](case, ctx)
