"""C12 Region exports (MOC FITS, DS9 reg, .mim) describe exactly the region's sky area (E2 states + E1 fixed regions)."""
import copy
import multiprocessing as mp
import os
import pickle
import re

import healpy as hp
import numpy as np
from astropy.io import fits

from AegeanTools.regions import Region
from mc import core, histories
from mc.oracles import hpset
from checks import regsys

PROPERTY = "C12"
LEVEL = "model_checking"
ASSUMPTIONS = ["healpy.boundaries / pix2ang are the trusted pixel geometry",
               "DS9 vertices are compared at the printed precision (0.01 s in RA, 0.01 arcsec in Dec) plus 10 %",
               "pickled sets are not byte-stable, so .mim files are compared by content after load, and a second "
               "save -> load must be a fixpoint",
               "whole-sky regions are exported for maxdepth <= 6 only (12*4^d deepest-level pixels)"]


def parse_sexa(s, hours=False):
    sign = -1.0 if s.strip().startswith("-") else 1.0
    a, b, c = [float(x) for x in s.strip().lstrip("+-").split(":")]
    v = sign * (a + b / 60.0 + c / 3600.0)
    return v * 15.0 if hours else v


def check_exports(reg, model, name, tmpdir, do_reg=True, loose=False):
    """all export clauses for one region (deep-copied by the caller); returns list of violation dicts"""
    viols = []
    md = reg.maxdepth
    tag = "%s_%d" % (name, os.getpid())
    # ---- MOC FITS --------------------------------------------------------------
    f = os.path.join(tmpdir, tag + ".fits")
    r = copy.deepcopy(reg)
    try:
        r.write_fits(f)
        with fits.open(f) as hl:
            vals = [int(v) for v in hl[1].data["NPIX"]] if len(hl[1].data) else []
            order = hl[1].header.get("MOCORDER")
            ordering = str(hl[1].header.get("ORDERING", "")).strip()
        os.remove(f)
        dec = hpset.uniq_decode(vals)
        got = set()
        bad = None
        n_expanded = 0
        for o, ip in dec:
            if o < 0 or o > md or not (0 <= ip < 12 * 4 ** o):
                bad = (o, ip)
                break
            ds = hpset.descend([ip], o, md)
            n_expanded += len(ds)
            got |= ds
        if bad is not None:
            viols.append(dict(kind="moc_invalid", what="%s: MOC holds an invalid cell order=%d ipix=%d (MOCORDER %r)" % (name, bad[0], bad[1], order)))
        elif got != set(model):
            viols.append(dict(kind="moc_pixels", what="%s: decoded MOC has %d deepest-level pixels, region has %d (missing %d, extra %d)" % (
                name, len(got), len(model), len(set(model) - got), len(got - set(model)))))
        elif n_expanded != len(got) and not loose:      # loose: last change was union(renorm=False), overlap is deferred work
            viols.append(dict(kind="moc_overlap", what="%s: MOC cells overlap (%d expanded, %d distinct)" % (name, n_expanded, len(got))))
        if order != md:
            viols.append(dict(kind="moc_order", what="%s: MOCORDER=%r, region depth %d" % (name, order, md)))
        if ordering != "NUNIQ":
            viols.append(dict(kind="moc_header", what="%s: ORDERING=%r" % (name, ordering)))
    except Exception as e:
        viols.append(dict(kind="moc_raise", what="%s: write_fits raised %r" % (name, e)))
    # ---- DS9 -------------------------------------------------------------------
    if do_reg:
        f = os.path.join(tmpdir, tag + ".reg")
        r = copy.deepcopy(reg)
        try:
            r.write_reg(f)
            lines = [ln.strip() for ln in open(f) if ln.strip()]
            os.remove(f)
            stored = sorted((lvl, int(p)) for lvl, s in r.pixeldict.items() for p in s)
            if len(lines) != len(stored):
                viols.append(dict(kind="ds9_count", what="%s: %d polygons for %d stored pixels" % (name, len(lines), len(stored))))
            else:
                polys = []
                for ln in lines:
                    m = re.match(r"^fk5;\s*polygon\((.*)\)$", ln)
                    if not m:
                        viols.append(dict(kind="ds9_format", what="%s: unparsable line %r" % (name, ln[:80])))
                        break
                    w = m.group(1).split(",")
                    if len(w) != 8:
                        viols.append(dict(kind="ds9_format", what="%s: polygon with %d numbers" % (name, len(w))))
                        break
                    polys.append([(parse_sexa(w[i], hours=True), parse_sexa(w[i + 1])) for i in range(0, 8, 2)])
                if len(polys) == len(stored):
                    # match polygons to pixels through the polygon centroid
                    unmatched = set(stored)
                    for pg in polys:
                        v = np.array(hp.ang2vec(np.radians(90 - np.array([q[1] for q in pg])), np.radians([q[0] for q in pg])))
                        cen = v.mean(axis=0)
                        hit = None
                        for lvl in sorted(set(s[0] for s in stored)):
                            ip = int(hp.vec2pix(2 ** lvl, *cen, nest=True))
                            if (lvl, ip) in unmatched:
                                b = hp.boundaries(2 ** lvl, ip, step=1, nest=True).T   # 4 x 3
                                # every printed vertex within tolerance of a true corner, and vice versa
                                d = np.degrees(np.arccos(np.clip(v.dot(b.T), -1, 1))) * 3600.0
                                tol = 0.01 * 15 * 1.1 * 0.75 + 0.01 * 1.1   # half-unit rounding in both coordinates, arcsec
                                if np.all(d.min(axis=1) < tol) and np.all(d.min(axis=0) < tol):
                                    hit = (lvl, ip)
                                    break
                        if hit is None:
                            viols.append(dict(kind="ds9_vertices", what="%s: polygon %r is not the outline of a stored pixel" % (
                                name, [(round(a, 5), round(b_, 5)) for a, b_ in pg])))
                            break
                        unmatched.discard(hit)
                    else:
                        if unmatched:
                            viols.append(dict(kind="ds9_missing", what="%s: stored pixels without polygon: %r" % (name, sorted(unmatched)[:4])))
        except Exception as e:
            import traceback
            viols.append(dict(kind="ds9_raise", what="%s: write_reg raised %r %s" % (name, e, traceback.format_exc()[-300:])))
    # ---- .mim ------------------------------------------------------------------
    f = os.path.join(tmpdir, tag + ".mim")
    try:
        r = copy.deepcopy(reg)
        r.save(f)
        l1 = Region.load(f)
        same = (l1.maxdepth == reg.maxdepth and
                {k: set(v) for k, v in l1.pixeldict.items() if v} == {k: set(v) for k, v in reg.pixeldict.items() if v})
        if not same:
            viols.append(dict(kind="mim_roundtrip", what="%s: save -> load changed the region" % name))
        if set(int(p) for p in copy.deepcopy(l1).get_demoted()) != set(model):
            viols.append(dict(kind="mim_model", what="%s: loaded region has a different deepest-level set" % name))
        l1.save(f)
        l2 = Region.load(f)
        if not (l2.maxdepth == l1.maxdepth and {k: set(v) for k, v in l2.pixeldict.items() if v} ==
                {k: set(v) for k, v in l1.pixeldict.items() if v}):
            viols.append(dict(kind="mim_fixpoint", what="%s: second save -> load differs" % name))
        os.remove(f)
    except Exception as e:
        viols.append(dict(kind="mim_raise", what="%s: save/load raised %r" % (name, e)))
    return viols


def _job(item):
    hist, name, blob, model, do_reg, loose = item
    reg = pickle.loads(blob)
    return hist, name, check_exports(reg, model, name, os.environ["VERIF_SCRATCH"], do_reg=do_reg, loose=loose)


def _fixed_job(task):
    label, md, kind, variant = task
    try:
        reg, model = build_fixed(kind, md)
    except Exception as e:
        return [dict(kind="build_raise", what="building region %s raised %r" % (label, e))]
    npx = sum(len(s) for s in reg.pixeldict.values())
    r = copy.deepcopy(reg)
    if variant == "after_query":
        try:
            r.sky_within(0.1, 0.1)
        except Exception as e:
            return [dict(kind="query_raise", what="sky_within on region %s raised %r" % (label, e))]
    return check_exports(r, model, label, os.environ["VERIF_SCRATCH"],
                         do_reg=(npx <= 400 and variant == "fresh") or len(model) <= 400 or kind == "circle_big")


def fixed_regions(tier):
    """E1 part: {empty, single pixel, multi-level, whole sky} x maxdepth 1..12"""
    out = []
    for md in range(1, 13):
        out.append(("empty@%d" % md, md, "empty"))
        out.append(("single@%d" % md, md, "single"))
        out.append(("circle@%d" % md, md, "circle"))
        if md <= 6:
            out.append(("wholesky@%d" % md, md, "wholesky"))
        if md in (6, 7):
            # more than 1024 (2048) pixels in ONE level once a query has demoted the region: block-wise writers
            out.append(("circle_big@%d" % md, md, "circle_big"))
        if 4 <= md <= 9:
            # pixels just south of the equator (-1 < Dec < 0: sign of a '-00' degree field) and across RA = 0 / 24h
            out.append(("equator@%d" % md, md, "equator"))
            out.append(("rawrap@%d" % md, md, "rawrap"))
    return out


def build_fixed(kind, md):
    r = Region(maxdepth=md)
    if kind == "empty":
        return r, frozenset()
    if kind == "single":
        p = (7 * 4 ** md) // 3
        r.add_pixels([p], md)
        return r, frozenset([p])
    if kind == "circle":
        rad = min(0.4, 300 * hp.nside2resol(2 ** md))
        r.add_circles(1.0, -0.5, rad)
        return r, frozenset(hpset.disc(md, 1.0, -0.5, rad))
    if kind == "circle_big":
        rad = {6: 0.41, 7: 0.16}[md]      # ~2100 pixels at depth 6, ~1250 at depth 7
        r.add_circles(2.2, 0.35, rad)
        return r, frozenset(hpset.disc(md, 2.2, 0.35, rad))
    if kind in ("equator", "rawrap"):
        ra0, dec0 = (2.0, np.radians(-0.4)) if kind == "equator" else (np.radians(0.05), np.radians(-12.0))
        rad = max(np.radians(0.7), 3 * hp.nside2resol(2 ** md))
        rad = min(rad, 12 * hp.nside2resol(2 ** md))
        r.add_circles(ra0, dec0, rad)
        return r, frozenset(hpset.disc(md, ra0, dec0, rad))
    if kind == "wholesky":
        r.add_pixels(range(12 * 4 ** md), md)
        return r, frozenset(range(12 * 4 ** md))
    raise ValueError(kind)


RELOAD_OPS = ["add_circle", "without", "intersect", "symmetric_difference", "union", "query"]


def reload_histories(ctx):
    """a saved file is loaded again after the object loaded from it earlier was changed: every ordered pair of RELOAD_OPS,
    load - op1 - load - op2 - load; every load must reproduce what was SAVED (and hand out an independent object)"""
    tmp = os.environ["VERIF_SCRATCH"]
    for md in (5, 7):
        saved, model = build_fixed("circle", md)
        other = Region(maxdepth=md)
        other.add_circles(1.05, -0.45, min(0.3, 200 * hp.nside2resol(2 ** md)))
        extra = (4.0, 0.6, min(0.2, 100 * hp.nside2resol(2 ** md)))
        f = os.path.join(tmp, "reload_%d_%d.mim" % (md, os.getpid()))
        saved.save(f)

        def apply(reg, op):
            if op == "add_circle":
                reg.add_circles(*extra)
            elif op == "query":
                reg.sky_within(0.1, 0.1)
            elif op == "union":
                reg.union(copy.deepcopy(other))
            else:
                getattr(reg, op)(copy.deepcopy(other))
        for op1 in RELOAD_OPS:
            for op2 in RELOAD_OPS:
                ctx.count("reload_histories")
                sig = "reload@%d:%s,%s" % (md, op1, op2)
                try:
                    a = Region.load(f)
                    apply(a, op1)
                    b = Region.load(f)
                    ok_b = set(int(p) for p in copy.deepcopy(b).get_demoted()) == set(model)
                    apply(b, op2)
                    c = Region.load(f)
                    ok_c = set(int(p) for p in copy.deepcopy(c).get_demoted()) == set(model)
                    distinct = (a is not b) and (b is not c) and (a is not c)
                except Exception as e:
                    ctx.violation("load / %s / load / %s / load raised %r" % (op1, op2, e), "reload_raise|" + sig, clause="reload", case=dict(md=md, op1=op1, op2=op2))
                    continue
                if not (ok_b and ok_c and distinct):
                    ctx.violation("loading a saved region again after the earlier loaded object was changed (%s, then %s) does not reproduce the saved "
                                  "region: second load %s, third load %s, independent objects %s (depth %d)" % (
                                      op1, op2, "ok" if ok_b else "DIFFERS", "ok" if ok_c else "DIFFERS", distinct, md),
                                  "reload|" + sig, clause="reload", case=dict(md=md, op1=op1, op2=op2))
        os.remove(f)


def cli_conversions(ctx):
    import logging
    from AegeanTools.CLI import MIMAS as cli
    tmp = os.environ["VERIF_SCRATCH"]
    logging.disable(logging.CRITICAL)
    for md, variant in [(4, "fresh"), (7, "fresh"), (7, "after_query"), (10, "after_query")]:
        # a small circle (the DS9 writer costs ~20 ms per stored pixel)
        rad = 6 * hp.nside2resol(2 ** md)
        reg = Region(maxdepth=md)
        reg.add_circles(1.0, -0.5, rad)
        model = frozenset(hpset.disc(md, 1.0, -0.5, rad))
        if variant == "after_query":
            reg.sky_within(0.1, 0.1)
        fm, ff, fr = [os.path.join(tmp, "cli12." + e) for e in ("mim", "fits", "reg")]
        reg.save(fm)
        ctx.count("cli_conversions")
        sig = "cli|circle@%d,%s" % (md, variant)
        try:
            cli.main(["--mim2fits", fm, ff])
            cli.main(["--mim2reg", fm, fr])
            with fits.open(ff) as hl:
                vals = [int(v) for v in hl[1].data["NPIX"]]
                order = hl[1].header.get("MOCORDER")
            got = set()
            for o, ip in hpset.uniq_decode(vals):
                got |= hpset.descend([ip], o, md)
            nlines = len([l for l in open(fr) if l.strip()])
            stored = sum(len(s_) for s_ in Region.load(fm).pixeldict.values())
            if got != set(model) or order != md:
                ctx.violation("MIMAS --mim2fits: decoded MOC has %d pixels (order %r), region %d (depth %d)" % (len(got), order, len(model), md),
                              "cli_mim2fits|" + sig, clause="fixed", case=dict(kind="circle", maxdepth=md, variant=variant))
            if nlines != stored:
                ctx.violation("MIMAS --mim2reg: %d polygons for %d stored pixels" % (nlines, stored), "cli_mim2reg|" + sig, clause="fixed",
                              case=dict(kind="circle", maxdepth=md, variant=variant))
        except SystemExit:
            pass
        except Exception as e:
            ctx.violation("MIMAS CLI conversion raised %r (%s)" % (e, sig), "cli_raise|" + sig, clause="fixed", case=dict(kind="circle", maxdepth=md, variant=variant))
        for f in (fm, ff, fr):
            if os.path.exists(f):
                os.remove(f)


def main(tier, seed, t0):
    depth = int(os.environ.get("VERIF_DEPTH") or (3 if tier == "quick" else 5))
    ctx = core.Ctx(PROPERTY, tier, seed, level=LEVEL)
    sysm = regsys.RegionSystem()
    jobs = {}
    nstates = [0]

    def visit(hist, state):
        nstates[0] += 1
        for name in ("X", "Y", "L", "H"):
            r = state.reg[name]
            key = (name, sysm.canon(state)[["H", "L", "X", "Y"].index(name)])
            if key not in jobs:
                npx = sum(len(s) for s in r.pixeldict.values())
                jobs[key] = (hist, name, pickle.dumps(r, -1), state.model[name], npx <= 400, bool(state.loose[name]))
    res = histories.bfs(sysm, depth, visit=visit)
    # and from a populated, once-queried state (histories of length 6 + depth - 1 from the empty state)
    sys2 = regsys.RegionSystem(prefix=regsys.POPULATED)
    res2 = histories.bfs(sys2, depth - 1, visit=lambda hist, state: visit(regsys.POPULATED + hist, state))
    for kind, hist, what in res.violations + res2.violations:
        # C08 territory; a state that already violates set algebra is not exported
        ctx.count("states_skipped_c08_violation")
    pool = mp.get_context("fork").Pool(min(16, os.cpu_count() or 1))
    try:
        results = pool.map(_job, list(jobs.values()), chunksize=4)
    finally:
        pool.close()
        pool.join()
    for hist, name, viols in results:
        ctx.count("exports_of_reached_regions")
        for v in viols:
            ctx.violation("%s after history %s" % (v["what"], " ; ".join(hist)), "%s|%s|%s" % (v["kind"], name, " ; ".join(hist)),
                          clause="history", case=dict(history=hist, register=name))
    # fixed regions x maxdepth (in the pool: the DS9 writer costs ~20 ms per stored pixel)
    tasks = [(label, md, kind, variant) for label, md, kind in fixed_regions(tier) for variant in ("fresh", "after_query")]
    pool = mp.get_context("fork").Pool(min(16, os.cpu_count() or 1))
    try:
        fres = pool.map(_fixed_job, tasks, chunksize=1)
    finally:
        pool.close()
        pool.join()
    for (label, md, kind, variant), viols in zip(tasks, fres):
        if variant == "fresh":
            ctx.count("exports_of_fixed_regions")
        for v in viols:
            ctx.violation("%s (%s)" % (v["what"], variant), "%s|%s,%s" % (v["kind"], label, variant), clause="fixed",
                          case=dict(kind=kind, maxdepth=md, variant=variant))
    # the MIMAS command line conversions (--mim2fits, --mim2reg) on regions before and after a demoting query
    cli_conversions(ctx)
    reload_histories(ctx)
    ctx.evaluations = len(results) + 2 * len(fixed_regions(tier))
    ctx.nontrivial_counted = len(results) + len(fixed_regions(tier))
    ctx.samples = [dict(history=h) for h in res.samples] + [dict(fixed=fixed_regions(tier)[5][0])]
    cov = dict(states=res.states + res2.states, transitions=res.transitions + res2.transitions,
               traces_validated_against_impl=res.transitions + res2.transitions,
               completed_depth=res.complete_depth, from_populated_state=dict(prefix=regsys.POPULATED, states=res2.states,
                                                                             completed_depth=res2.complete_depth),
               distinct_region_representations_exported=len(results),
               fixed_regions=len(fixed_regions(tier)), operations=len(sysm.oplist),
               explanation="states are those of the C08 history search (real Region objects); every distinct internal "
                           "representation of every register reached within the depth is exported three ways and decoded "
                           "independently; plus the fixed regions x maxdepth 1..12, fresh and after a demoting query")
    rule = ("exports of every distinct region representation reached by BFS over operation histories (depth %d from the empty state, "
            "one less from a populated once-queried state; the alphabet includes union without renormalisation), plus "
            "{empty, single pixel, circle, whole sky} x maxdepth 1..12 x {fresh, after query}; distinct_nontrivial = "
            "distinct exported representations" % depth)
    return core.finish(__import__("checks.c12", fromlist=["x"]), ctx, t0, extra_coverage=cov, exhaustive=True, rule=rule)


def evaluate(clause, case, ctx):
    tmp = os.environ.get("VERIF_SCRATCH", "/dev/shm")
    if clause == "reload":
        return reload_histories(ctx)
    if clause == "history":
        sysm = regsys.RegionSystem()
        st = sysm.init()
        for op in case["history"]:
            st, _ = sysm.apply(st, op)
        name = case["register"]
        for v in check_exports(st.reg[name], st.model[name], name, tmp, loose=bool(st.loose[name])):
            ctx.violation(v["what"], v["kind"])
    else:
        reg, model = build_fixed(case["kind"], case["maxdepth"])
        if case.get("variant") == "after_query":
            reg.sky_within(0.1, 0.1)
        for v in check_exports(reg, model, case["kind"], tmp, do_reg=len(model) <= 400 or case["kind"] == "circle_big"):
            ctx.violation(v["what"], v["kind"])
