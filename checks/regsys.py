"""The Region 'system under test' for the E2 history search (shared by C08 and C12)."""
import copy
import os

import healpy as hp
import numpy as np

from AegeanTools.regions import Region
from mc.oracles import hpset

D = 3
DEPTHS = dict(X=D, Y=D, L=D - 1, H=D + 2)
C1 = (0.30, 0.20, 0.25)      # ra, dec, radius (radians)
C2 = (0.45, 0.35, 0.20)
C3 = (5.9, -1.45, 0.30)      # near the south pole, across RA wrap
POLY = [(10.0, 5.0), (40.0, 8.0), (35.0, 40.0), (12.0, 30.0)]   # degrees, convex

_CACHE = {}


def geom(depth):
    if depth not in _CACHE:
        ra, dec = hpset.centres(depth)
        ora, odec, opix = hpset.offcentre(depth)
        _CACHE[depth] = (ra, dec, ora, odec, opix)
    return _CACHE[depth]


def _p_at_d():
    """pixel sets used by add_pixels, derived from the circles so that they collide with them"""
    d1 = sorted(hpset.disc(D, *C1))
    return dict(P1=[d1[0], d1[1], d1[-1]],                      # a few pixels at depth D already/partly present
                P2=[sorted(hpset.ascend(d1, D, D - 1))[0]],     # a parent (depth D-1) of present children
                P3=[4 * 7, 4 * 7 + 1, 4 * 7 + 2, 4 * 7 + 3, 100],  # a complete quad + a single
                P4=[sorted(hpset.ascend(d1, D, 1))[0], 41])     # pixels at the COARSEST level (1): an ancestor of present pixels + another
PS = _p_at_d()

OPS = [
    ("X.add_circles", "C1"), ("X.add_circles", "C2@%d" % (D - 1)), ("Y.add_circles", "C2"), ("Y.add_circles", "C1@%d" % (D - 1)),
    ("X.add_circles", "C3"), ("X.add_poly", "POLY"), ("Y.add_poly", "POLY@%d" % (D - 1)),
    ("X.add_pixels", "P1@%d" % D), ("X.add_pixels", "P2@%d" % (D - 1)), ("Y.add_pixels", "P3@%d" % D),
    ("X.add_pixels", "P4@1"), ("L.add_pixels", "P4@1"),
    ("L.add_circles", "C1"), ("H.add_circles", "C2"),
    ("X.union", "Y"), ("Y.union", "X"), ("X.union", "L"), ("X.union", "H"), ("L.union", "X"), ("H.union", "X"),
    # union without renormalisation: normal form (area, single representation) is deferred until the next normalising
    # operation on that region, membership / pixel set / exports are not
    ("X.union_norenorm", "L"), ("X.union_norenorm", "Y"), ("X.union_norenorm", "H"),
    ("X.without", "Y"), ("Y.without", "X"), ("X.intersect", "Y"), ("X.symmetric_difference", "Y"),
    ("X.sky_within", ""), ("Y.sky_within", ""), ("L.sky_within", ""),
    ("X.get_demoted", ""), ("Y.get_demoted", ""), ("H.get_demoted", ""), ("X.get_area", ""),
    ("X.saveload", ""),
    ("X.save", ""), ("Y.save", ""),      # write the file (its content is compared with the model) and KEEP USING the original object
]
CIRC = dict(C1=C1, C2=C2, C3=C3)


class State(object):
    __slots__ = ("reg", "model", "loose")

    def __init__(self):
        self.reg = {k: Region(maxdepth=v) for k, v in DEPTHS.items()}
        self.model = {k: frozenset() for k in DEPTHS}
        self.loose = {k: False for k in DEPTHS}        # True after union(renorm=False) until the next normalising operation


def idrepr(p):
    return repr(p.item() if hasattr(p, "item") else p)


# a non-initial start state (every register populated, X queried once): histories of length n from here are histories of
# length n + len(POPULATED) from the empty state
POPULATED = ["X.add_circles(C1)", "X.sky_within()", "Y.add_pixels(P3@%d)" % D, "Y.add_circles(C2)", "L.add_circles(C1)", "H.add_circles(C2)"]


class RegionSystem(object):
    def __init__(self, ops=None, prefix=None):
        self.oplist = ops or OPS
        self.prefix = list(prefix or [])

    def init(self):
        st = State()
        for op in self.prefix:
            st, viols = self.apply(st, op)
            assert not viols, (op, viols)
        return st

    def ops(self, state):
        return ["%s(%s)" % o for o in self.oplist]

    def canon(self, state):
        key = []
        for name in sorted(state.reg):
            r = state.reg[name]
            pd = tuple(sorted((lvl, idrepr(p)) for lvl, s in r.pixeldict.items() for p in s))
            dm = tuple(sorted(idrepr(p) for p in r.demoted))
            alias = r.demoted is r.pixeldict.get(r.maxdepth)
            # the model set is part of the key: two histories that reach the same implementation state with
            # DIFFERENT models (only possible when the implementation is wrong) must both be checked
            key.append((name, r.maxdepth, pd, dm, alias, tuple(sorted(r.pixeldict)), tuple(sorted(state.model[name])), state.loose[name]))
        return tuple(key)

    # ---- transitions ---------------------------------------------------------
    def apply(self, state, op):
        new = copy.deepcopy(state)
        viols = []
        target, rest = op.split(".", 1)
        meth, arg = rest[:-1].split("(", 1)
        r = new.reg[target]
        md = DEPTHS[target]
        m = set(new.model[target])
        if meth == "add_circles":
            nm, _, dep = arg.partition("@")
            ra, dec, rad = CIRC[nm]
            depth = int(dep) if dep else None
            r.add_circles(ra, dec, rad, depth=depth)
            qd = md if depth is None or depth > md else depth
            m |= hpset.descend(hpset.disc(qd, ra, dec, rad), qd, md)
        elif meth == "add_poly":
            nm, _, dep = arg.partition("@")
            depth = int(dep) if dep else None
            r.add_poly([tuple(np.radians(p)) for p in POLY], depth=depth)
            qd = md if depth is None or depth > md else depth
            m |= hpset.descend(hpset.polygon(qd, POLY), qd, md)
        elif meth == "add_pixels":
            nm, _, dep = arg.partition("@")
            depth = int(dep)
            r.add_pixels(list(PS[nm]), depth)
            m |= hpset.descend(PS[nm], depth, md)
        elif meth in ("union", "union_norenorm", "without", "intersect", "symmetric_difference"):
            o = new.reg[arg]
            om = new.model[arg]
            od = DEPTHS[arg]
            if meth in ("union", "union_norenorm"):
                if meth == "union":
                    r.union(o)
                else:
                    r.union(o, renorm=False)
                    new.loose[target] = None     # decided below
                if od == md:
                    m |= om
                elif od > md:
                    m |= hpset.ascend(om, od, md)
                else:
                    m |= hpset.descend(om, od, md)
            elif meth == "without":
                r.without(o)
                m -= om
            elif meth == "intersect":
                r.intersect(o)
                m &= om
            else:
                r.symmetric_difference(o)
                m ^= om
        elif meth == "sky_within":
            ra, dec, _, _, _ = geom(md)
            ans = r.sky_within(ra[::3], dec[::3])
            exp = np.isin(np.arange(len(ra))[::3], list(m))
            if not np.array_equal(np.asarray(ans, dtype=bool), exp):
                viols.append(dict(kind="query_answer", what="%s.sky_within answers differ from the model at %d of %d centres" % (
                    target, int(np.sum(np.asarray(ans, dtype=bool) != exp)), len(exp))))
        elif meth == "get_demoted":
            got = r.get_demoted()
            try:
                gs = set(int(p) for p in got if float(p) == int(p))
            except Exception:
                gs = None
            if gs != m or len(got) != len(m):
                viols.append(dict(kind="query_answer", what="%s.get_demoted() has %d pixels, model %d" % (target, len(got), len(m))))
        elif meth == "get_area":
            a = r.get_area(degrees=False)
            exp = len(m) * hp.nside2pixarea(2 ** md)
            if not new.loose[target] and abs(a - exp) > 1e-9 * max(exp, 1e-12):
                viols.append(dict(kind="query_answer", what="%s.get_area() = %.9g, model %.9g" % (target, a, exp)))
        elif meth == "save":
            f = os.path.join(os.environ.get("VERIF_SCRATCH", "/dev/shm"), "regsys_s_%d.mim" % os.getpid())
            r.save(f)
            back = Region.load(f)
            os.remove(f)
            for v in check_region(back, frozenset(m), target + " (file written by save)", loose=bool(new.loose[target])):
                viols.append(v)
        elif meth == "saveload":
            f = os.path.join(os.environ.get("VERIF_SCRATCH", "/dev/shm"), "regsys_%d.mim" % os.getpid())
            r.save(f)
            new.reg[target] = Region.load(f)
            os.remove(f)
        else:
            raise ValueError(op)
        new.model[target] = frozenset(m)
        if meth in ("add_circles", "add_poly", "add_pixels", "union", "without", "intersect", "symmetric_difference"):
            new.loose[target] = False           # these renormalise their target
        elif new.loose[target] is None:
            new.loose[target] = True
        return new, viols

    # ---- invariants ----------------------------------------------------------
    def check(self, state, history):
        viols = []
        for name in sorted(state.reg):
            viols.extend(check_region(state.reg[name], state.model[name], name, loose=state.loose[name]))
        return viols


def check_region(reg, model, name="R", loose=False):
    """all C08 invariants of one region against its model set; never mutates `reg`.  loose: the last change was a
    union(renorm=False): single representation and area are deferred, everything else is not"""
    viols = []
    md = reg.maxdepth
    npix = 12 * 4 ** md
    # -- representation: valid integral ids, nothing twice ----------------------
    for lvl, s in reg.pixeldict.items():
        for p in s:
            ok = True
            try:
                ok = float(p) == int(p) and 0 <= int(p) < 12 * 4 ** lvl
            except Exception:
                ok = False
            if not ok or isinstance(p, bool):
                viols.append(dict(kind="invalid_id", what="%s holds pixel id %r at level %d" % (name, p, lvl)))
                return viols
        if lvl < 1 or lvl > md:
            if s:
                viols.append(dict(kind="invalid_level", what="%s holds pixels at level %d (maxdepth %d)" % (name, lvl, md)))
                return viols
    have = {lvl: set(int(p) for p in s) for lvl, s in reg.pixeldict.items()}
    for lvl, s in ([] if loose else have.items()):
        for p in s:
            for k in range(1, lvl):
                if lvl - k in have and (p >> (2 * k)) in have[lvl - k]:
                    viols.append(dict(kind="double_representation",
                                      what="%s stores pixel %d@%d together with its ancestor %d@%d" % (
                                          name, p, lvl, p >> (2 * k), lvl - k)))
                    return viols
    # -- observable answers, on copies (queries may demote the representation) -----
    ra, dec, ora, odec, opix = geom(md)
    c = copy.deepcopy(reg)
    area = c.get_area(degrees=False)
    exp = len(model) * hp.nside2pixarea(2 ** md)
    if not loose and abs(area - exp) > 1e-9 * max(exp, 1e-12):
        viols.append(dict(kind="area", what="%s.get_area() = %.9g sr, model %.9g sr (%d deepest-level pixels)" % (
            name, area, exp, len(model))))
    c = copy.deepcopy(reg)
    got = c.get_demoted()
    bad = [p for p in got if not (float(p) == int(p))]
    gs = set(int(p) for p in got if float(p) == int(p))
    if bad or gs != set(model) or len(got) != len(model):
        viols.append(dict(kind="demoted", what="%s.get_demoted(): %d pixels (%d non-integral), model %d; missing %r extra %r" % (
            name, len(got), len(bad), len(model), sorted(set(model) - gs)[:4], sorted(gs - set(model))[:4])))
    c = copy.deepcopy(reg)
    marr = np.zeros(npix, dtype=bool)
    if model:
        marr[np.fromiter(model, dtype=np.int64)] = True
    ans = np.asarray(c.sky_within(ra, dec), dtype=bool)
    if not np.array_equal(ans, marr):
        w = np.where(ans != marr)[0]
        viols.append(dict(kind="membership", what="%s.sky_within differs from the model at %d of %d pixel centres (first pixel %d: got %s)" % (
            name, len(w), npix, int(w[0]), bool(ans[w[0]]))))
    # small batches in which several positions fall into ONE pixel (a table with duplicate rows, image pixels finer than the
    # region's resolution): each position must be answered as if asked alone
    outside = sorted(set(range(npix)) - set(model))
    inside = sorted(model)
    for pick in ([outside[0], outside[len(outside) // 2], outside[-1]] if outside else []):
        idx = [pick, pick, pick] + ([inside[len(inside) // 2]] if inside else []) + [pick, pick]
        got = np.asarray(c.sky_within(ra[idx], dec[idx]), dtype=bool)
        exp = marr[idx]
        if not np.array_equal(got, exp):
            viols.append(dict(kind="membership_repeated", what="%s.sky_within of positions %r (pixel %d repeated, it is outside) answers %r, expected %r" % (
                name, idx, pick, got.tolist(), exp.tolist())))
            break
    if viols and viols[-1]["kind"] in ("membership", "membership_repeated"):
        pass
    else:
        ans2 = np.asarray(c.sky_within(np.degrees(ora), np.degrees(odec), degin=True), dtype=bool)
        if not np.array_equal(ans2, marr[opix]):
            w = np.where(ans2 != marr[opix])[0]
            viols.append(dict(kind="membership_offcentre", what="%s.sky_within(degin) differs from the model at %d off-centre points" % (
                name, len(w))))
    return viols
