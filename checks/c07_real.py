"""
C07 layer 4b/4c: the same stripes on REAL multiprocessing.

4b  gate replay: a schedule (global order of hook-label events, taken from an execution under the simulated
    scheduler) is enforced on the real fork pool / real multiprocessing.Barrier / real SharedMemory through
    per-(stripe, label) semaphores inherited by fork; a controller thread releases them in schedule order and
    waits for quiescence (every stripe at a gate, inside barrier.wait, or finished) between releases.  Outcome,
    maps (bit-identical) and /dev/shm cleanliness must equal what the simulated execution predicted.
4c  free-running pass: no gates, hooks inert, watchdog; maps must equal the schedule-independent result.

Every real run happens in its own process group with a watchdog, so that a hang is an observation.
"""
import hashlib
import json
import logging
import multiprocessing as mp
import os
import signal
import subprocess
import sys
import threading
import time

import numpy as np

import aegean_verif_hooks
from AegeanTools import BANE

_Q = None
_GATES = None
_REGION_INDEX = None
_FAULT = None
_REAL_FN = None


class _Fault(RuntimeError):
    pass


def _handler(label, region):
    s = _REGION_INDEX[tuple(region)]
    _Q.put(("arrive", s, label))
    _GATES[(s, label)].acquire()
    if _FAULT is not None and tuple(_FAULT) == (s, label):
        raise _Fault("injected fault in stripe %d at %s" % (s, label))


def _wrapped(args):
    s = _REGION_INDEX[tuple(args[1])]
    try:
        r = _REAL_FN(args)
    except BaseException:
        _Q.put(("failed", s, None))
        raise
    _Q.put(("done", s, None))
    return r


class _ProxyPool(object):
    def __init__(self, pool):
        self.pool = pool

    def map_async(self, fn, args, chunksize=None):
        global _REAL_FN
        _REAL_FN = fn
        return self.pool.map_async(_wrapped, args, chunksize=chunksize)

    def __getattr__(self, k):
        return getattr(self.pool, k)


class _ProxyCtx(object):
    def __init__(self, ctx, holder):
        self.ctx = ctx
        self.holder = holder

    def Barrier(self, parties, **kw):
        b = self.ctx.Barrier(parties, **kw)
        self.holder["barrier"] = b
        return b

    def Pool(self, *a, **kw):
        # the wrapper function must be known before the workers are forked: set in map_async, and the pool
        # forks its workers here -> pre-set _REAL_FN
        global _REAL_FN
        _REAL_FN = BANE._sf2
        p = self.ctx.Pool(*a, **kw)
        self.holder["pool"] = p
        return _ProxyPool(p)


class _ProxyMP(object):
    def __init__(self, holder):
        self.holder = holder
        self.real = mp

    def get_context(self, method=None):
        return _ProxyCtx(self.real.get_context(method), self.holder)

    def cpu_count(self):
        return self.real.cpu_count()


def child_main(spec_file, out_file):
    """runs inside its own process (group); performs one real BANE call, optionally gated"""
    global _Q, _GATES, _REGION_INDEX, _FAULT
    logging.disable(logging.CRITICAL)
    if os.environ.get("C07_REAL_DEBUG"):
        import faulthandler
        faulthandler.dump_traceback_later(30, file=open(out_file + ".stacks", "w"), exit=False)
    spec = json.load(open(spec_file))
    inst = spec["inst"]
    regions = [tuple(r) for r in spec["regions"]]
    S_ = len(regions)
    result = dict(outcome=None, detail="", digest=None, log=[], quiescent_limit=float(spec.get("quiescent_limit", 20.0)))
    holder = {}
    ctrl = None
    if spec.get("schedule") is not None:
        ctx = mp.get_context("fork")
        _Q = ctx.Queue()
        labels = spec["labels"]
        _GATES = {(s, l): ctx.Semaphore(0) for s in range(S_) for l in labels}
        _REGION_INDEX = {r: i for i, r in enumerate(regions)}
        _FAULT = spec.get("fault")
        aegean_verif_hooks.handler = _handler
        BANE.multiprocessing = _ProxyMP(holder)
        ctrl = threading.Thread(target=_controller, args=(spec["schedule"], S_, holder, result), daemon=True)
        ctrl.start()
    else:
        aegean_verif_hooks.handler = None
    BANE.memory_id = None

    def _memid_watch():
        # publish the uuid of the shared-memory segments as soon as the call has chosen it, so that the parent can
        # check / clean exactly these segments (other BANE runs may be active on the machine at the same time)
        while BANE.memory_id is None:
            time.sleep(0.0005)
        with open(out_file + ".memid", "w") as fh:
            fh.write(str(BANE.memory_id))
    threading.Thread(target=_memid_watch, daemon=True).start()
    try:
        bkg, rms = BANE.filter_mc_sharemem(inst["file"], step_size=tuple(inst["grid"]), box_size=tuple(inst["box"]),
                                           cores=inst["cores"], shape=tuple(inst["shape"]), nslice=inst["nslice"],
                                           domask=inst["mask"])
        result["outcome"] = "ok"
        result["digest"] = hashlib.sha1(bkg.tobytes() + rms.tobytes()).hexdigest()[:16]
    except Exception as e:
        result["outcome"] = "raised"
        msg = str(e).strip().splitlines()[-1][:200] if str(e).strip() else ""
        result["detail"] = "%s: %s" % (type(e).__name__, msg)
    if ctrl is not None:
        ctrl.join(timeout=5)
    with open(out_file + ".tmp", "w") as f:
        json.dump(result, f)
    os.replace(out_file + ".tmp", out_file)


def _controller(schedule, S_, holder, result):
    """release gates in schedule order; between releases wait until the system is quiescent"""
    state = {s: "running" for s in range(S_)}      # running | gate:<label> | done | failed
    log = result["log"]

    def drain(timeout):
        try:
            kind, s, label = _Q.get(timeout=timeout)
        except Exception:
            return False
        if kind == "arrive":
            state[s] = "gate:" + label
        else:
            state[s] = kind
        return True

    def quiescent():
        b = holder.get("barrier")
        if b is None:
            return False
        ngate = sum(1 for v in state.values() if v.startswith("gate:"))
        nfin = sum(1 for v in state.values() if v in ("done", "failed"))
        try:
            bst, bcnt = b._state, b._count
        except Exception:
            return False
        return bst not in (1, -1) and ngate + nfin + bcnt == S_

    def wait_quiescent(limit=result.get("quiescent_limit", 20.0)):
        t0 = time.time()
        stable = 0
        while time.time() - t0 < limit:
            while drain(0.0005):
                stable = 0
            if quiescent():
                stable += 1
                if stable >= 3:      # three consecutive observations, 1 ms apart
                    return True
                time.sleep(0.001)
            else:
                stable = 0
                time.sleep(0.0005)
        return False

    for (s, label) in schedule:
        if not wait_quiescent():
            log.append("not quiescent before releasing (%d, %s): %r" % (s, label, dict(state)))
            result["controller"] = "timeout"
            break
        if state[s] != "gate:" + label:
            log.append("schedule diverges: stripe %d is %s, schedule wants it at %s" % (s, state[s], label))
            result["controller"] = "diverged"
            break
        state[s] = "running"
        _GATES[(s, label)].release()
    else:
        result["controller"] = "completed"
    # let everything run to the end: release every gate generously
    for g in _GATES.values():
        for _ in range(4):
            g.release()


_SLOW = []


def slowness():
    """how slow this machine is right now: seconds a fresh interpreter needs to import what the child imports (about 1.5 s
    on the idle 16-core sandbox).  Deadlines below scale with it, so that a loaded machine is not reported as a hang."""
    if not _SLOW:
        t = time.time()
        code = "import sys; sys.path.insert(0, %r); from checks import c07_real" % os.path.dirname(os.path.dirname(os.path.abspath(__file__)))
        subprocess.run([sys.executable, "-c", code], stdout=subprocess.DEVNULL, stderr=subprocess.DEVNULL, env=dict(os.environ, AEGEAN_VERIF="1"))
        _SLOW.append(max(1.0, time.time() - t))
    return _SLOW[0]


def run_real(inst, regions, labels, schedule, fault, scratch, timeout=None):
    """returns dict(outcome, digest, detail, leaked, controller)"""
    if timeout is None:
        timeout = 60 + 30 * slowness()
    spec = dict(inst=inst, regions=[list(r) for r in regions], labels=labels, schedule=schedule, fault=list(fault) if fault else None,
                quiescent_limit=20.0 + 10 * slowness())
    sf = os.path.join(scratch, "real_spec_%d.json" % os.getpid())
    of = os.path.join(scratch, "real_out_%d.json" % os.getpid())
    json.dump(spec, open(sf, "w"))
    for x in (of, of + ".memid"):
        if os.path.exists(x):
            os.remove(x)
    env = dict(os.environ, AEGEAN_VERIF="1")
    code = "import sys; sys.path.insert(0, %r); from checks import c07_real; c07_real.child_main(%r, %r)" % (
        os.path.dirname(os.path.dirname(os.path.abspath(__file__))), sf, of)
    p = subprocess.Popen([sys.executable, "-c", code], env=env, stdout=subprocess.DEVNULL, stderr=subprocess.DEVNULL,
                         start_new_session=True)
    # the observation is whether the CALL returned/raised (the child writes its result file right after it);
    # what the interpreter does at exit afterwards is outside the property (an un-terminated pool can stall
    # multiprocessing's exit handler) - the group is killed below in every case
    t_end = time.time() + timeout
    hung = True
    while time.time() < t_end:
        if os.path.exists(of) and os.path.getsize(of) > 0:
            hung = False
            break
        if p.poll() is not None:
            hung = False
            break
        time.sleep(0.01)
    if not hung:
        try:
            p.wait(timeout=1.0)
        except subprocess.TimeoutExpired:
            pass
    # make sure nothing of the group survives (orphaned pool workers)
    try:
        os.killpg(p.pid, signal.SIGKILL)
    except (ProcessLookupError, PermissionError):
        pass
    p.wait()
    leaked = []
    if os.path.exists(of + ".memid"):
        mid = open(of + ".memid").read().strip()
        for n in ("ibkg_" + mid, "irms_" + mid):
            if mid and os.path.exists(os.path.join("/dev/shm", n)):
                leaked.append(n)
                try:
                    os.remove(os.path.join("/dev/shm", n))
                except OSError:
                    pass
    if os.environ.get("C07_REAL_DEBUG") and hung:
        print("HUNG; out file exists:", os.path.exists(of), open(of).read()[:300] if os.path.exists(of) else "")
        if os.path.exists(of + ".stacks"):
            print(open(of + ".stacks").read()[-3000:])
    if hung or not os.path.exists(of):
        return dict(outcome="hung" if hung else "crashed", digest=None, detail="", leaked=leaked if not hung else [], controller=None)
    r = json.load(open(of))
    r["leaked"] = leaked
    return r


def label_schedule(obs):
    """global order of hook-label events of an execution under the simulated scheduler"""
    from checks.c07 import HOOK_LABELS
    return [[i, l] for (i, l) in obs.events if l in HOOK_LABELS]


def run(ctx, cov, tier, scratch, progs):
    from checks import c07
    out = dict(schedules_replayed=0, free_running=0, disagreements=0, details=[])
    cfgs = c07.configs("quick")[1:3] if tier == "quick" else c07.configs(tier)[1:5]
    for cfg in cfgs:
        mask = True
        cores = cfg["cores"][0]
        inst = c07.make_inst(cfg, cores, mask, scratch)
        lay = c07.layout(cfg["rows"], c07.COLS, c07.GRID, c07.BOX, cores, cfg["nslice"], mask, inst["file"])
        regions = lay["regions"]
        S_ = len(regions)
        labels = [l for l in progs[mask]["labels"] if l is not None]
        # representative schedules: default order, reversed priority, and an alternating one; plus faults
        sims = []
        base = c07.run_schedule(inst, (), mode="all")
        sims.append(("default", None, base))
        alt = [1] * 400
        sims.append(("always-switch", None, c07.run_schedule(inst, alt, mode="all", clip=True)))
        sims.append(("late-first", None, c07.run_schedule(inst, [S_ - 1] + [0] * 10 + [1] * 5, mode="all", clip=True)))
        flabels = labels if tier != "quick" else ["start", "bkg_read", "mask_write"]
        for fl in flabels:
            for fs in sorted(set([0, S_ - 1])):
                sims.append(("fault", (fs, fl), c07.run_schedule(inst, (), fault=(fs, fl), mode="all")))
        for name, fault, sim in sims:
            sched_events = label_schedule(sim)
            real = run_real(c07.inst_nofile(inst) | dict(file=inst["file"]), regions, labels, sched_events, fault, scratch)
            out["schedules_replayed"] += 1
            ctx.count("real_process_gate_replays")
            exp = (sim.outcome, sim.digest)
            got = (real["outcome"], real.get("digest"))
            agree = exp == got and not real["leaked"] and real.get("controller") in ("completed",)
            ctx.outcome("real:%s" % real["outcome"])
            key = "%s,%s,fault=%r" % (c07.inst_key(inst), name, fault)
            if real["outcome"] == "hung":
                ctx.violation("real multiprocessing run hangs (%s); the simulated execution predicted %s" % (key, sim.outcome),
                              "real_hang|" + key, clause="real", case=dict(key=key))
            elif real["leaked"]:
                ctx.violation("real run left shared memory behind: %r (%s)" % (real["leaked"], key), "real_leak|" + key,
                              clause="real", case=dict(key=key))
            elif fault is None and real["outcome"] != "ok":
                ctx.violation("real run without fault ended %s %s (%s)" % (real["outcome"], real.get("detail"), key),
                              "real_raise|" + key, clause="real", case=dict(key=key))
            elif fault is not None and real["outcome"] != "raised":
                ctx.violation("real run with a fault ended %s (%s)" % (real["outcome"], key), "real_fault|" + key,
                              clause="real", case=dict(key=key))
            elif not agree:
                out["disagreements"] += 1
                ctx.harness_errors.append(dict(clause="real_replay", case=key,
                                               tb="simulated scheduler and real multiprocessing disagree: simulated %r, real %r, controller %r log %r" % (
                                                   exp, got, real.get("controller"), real.get("log"))))
            if len(out["details"]) < 6:
                out["details"].append(dict(key=key, simulated=list(exp), real=list(got), events=len(sched_events)))
        # free running: hooks inert
        for c2 in cfg["cores"]:
            inst2 = c07.make_inst(cfg, c2, mask, scratch)
            real = run_real(inst2, regions, labels, None, None, scratch)
            out["free_running"] += 1
            ctx.count("real_process_free_runs")
            key = c07.inst_key(inst2) + ",free-running"
            if real["outcome"] == "hung":
                ctx.violation("free-running real BANE call hangs (%s)" % key, "real_hang|" + key, clause="real", case=dict(key=key))
            elif real["outcome"] != "ok" or real["leaked"]:
                ctx.violation("free-running real BANE call: %s %s leaked=%r (%s)" % (real["outcome"], real.get("detail"), real["leaked"], key),
                              "real_free|" + key, clause="real", case=dict(key=key))
            elif real["digest"] != base.digest:
                ctx.violation("free-running real maps differ from the schedule-explored result (%s): %s vs %s" % (key, real["digest"], base.digest),
                              "real_digest|" + key, clause="real", case=dict(key=key))
    cov["real_process"] = out


