"""C03 Every output catalogue is internally consistent and reproducible (E1 over scene sequences x modes, E2-style
run histories)."""
import itertools
import os
import re
import subprocess
import sys

import numpy as np

from checks import scenes
from mc import core
from mc.oracles import floodfill, sphere
from mc.oracles import wcs_zenithal as wz

PROPERTY = "C03"
LEVEL = "exploration"
SHARDS = 16
RULE = ("scenes = ALL sequences of length 1..2 (quick) / 1..3 (thorough) over 9 island archetypes placed on fixed slots, plus "
        "fixed big scenes (blank image, 49 isolated sources = 3 priorized groups of 20, 196 sources; SIN/ZEA/TAN fields 33 x 35 deg "
        "wide with sources up to 15.7 deg from the reference pixel and no psf map); every scene x mode "
        "{blind, blind+island, priorized stage 1,2,3 x regroup on/off on the blind output}; every row of every catalogue is "
        "checked against the invariants, island rows against an independent flood fill; run histories {fresh object twice, "
        "same object again, fresh process with another hash seed} must give identical catalogues apart from uuids; "
        "non-trivial = scene with at least one detected island; distinct = (scene, mode)")
ASSUMPTIONS = ["forced rms = 0.01 and background 0 (noise-free rendered scenes + a fixed dyadic noise variant)",
               "sexagesimal strings must parse back to the decimal coordinate within half a unit of the last printed digit "
               "plus 1e-9 deg",
               "int_flux relation is evaluated for components that were fitted (not NOTFIT) with finite values",
               "island rows: pixel count, bounding-box widths, component count and the sky position of the peak pixel (0.1 pixel) "
               "against the flood-fill reference and the independent WCS model"]

ALLFLAGS = 1 | 2 | 4 | 8 | 16 | 32 | 64
MODES = ["blind", "island", "p1r", "p2r", "p3r", "p1n", "p2n", "p3n"]


def axes(tier, seed):
    return dict(archetypes=scenes.ARCHETYPES, depth=2 if tier == "quick" else 3, modes=MODES,
                big_scenes=["blank", "grid7x7", "nan_image"] + ([] if tier == "quick" else ["grid14x14"]),
                histories=["fresh,fresh", "same object rerun", "fresh process PYTHONHASHSEED=1/2"])


def cases(tier, seed):
    A = scenes.ARCHETYPES
    depth = 2 if tier == "quick" else 3
    for n in range(1, depth + 1):
        for seq in itertools.product(A, repeat=n):
            yield "scene", dict(names=list(seq))
    # priorized fitting where ONE input source at a time is unusable (its pixel is blank / it lies off the image): every
    # component of the blind catalogue in turn
    for names in (["blend2", "point"], ["blend3", "negative"], ["blend2", "blend3"]):
        yield "rejects", dict(names=names)
    # noise / background supplied as FILES that are blank where the image is blank (what BANE writes), a blank edge running
    # diagonally a few pixels from the sources so that island bounding boxes contain blank noise pixels
    for names in (["point", "extended"], ["blend2", "negative"], ["blend3", "small"]):
        for gap in (3, 5):
            yield "blankrms", dict(names=names, gap=gap)
    # other threshold pairs, incl. a flood clip ABOVE the seed clip (the finder then floods at the seed level) together with
    # island rows: each option is harmless alone
    for names in (["point", "extended", "small"], ["blend2", "tiny", "negative"]):
        for clips in ([3, 4], [5, 5], [6, 3], [4, 10], [8, 4]):
            yield "clips", dict(names=names, clips=clips)
    # priorized stages 1-2 (shape frozen) with exactly CIRCULAR input components whose meridian runs along a pixel axis: the
    # frozen shape comes back with a and b equal up to rounding and a position angle of exactly 0 or 90
    for kind in ("SIN_meridian", "CAR", "SIN_offaxis"):
        yield "circular", dict(kind=kind)
    yield "big", dict(kind="blank")
    yield "big", dict(kind="nan_image")
    yield "big", dict(kind="grid7")
    yield "big", dict(kind="pole_N")        # images whose reference point is a celestial pole
    yield "big", dict(kind="pole_S")
    for proj in ("SIN", "ZEA", "TAN"):      # wide fields: sources up to 16 deg from the reference pixel, no psf map
        yield "big", dict(kind="wide_" + proj)
    if tier != "quick":
        yield "big", dict(kind="grid14")
    for names in (["blend3", "negative"], ["point"], ["tiny", "small"]):
        yield "history", dict(names=names)
    for k, names in enumerate((["blend2", "negative", "point"], ["extended", "small"], ["blend3", "edge"], ["nanblock", "tiny", "negative"])):
        yield "cli", dict(names=names, k=k)


def hash_small(seq):
    import zlib
    return zlib.crc32(",".join(seq).encode())


def parse_sexa(s, hours=False):
    m = re.match(r"^([+-]?)(\d+):(\d+):(\d+\.\d+)$", s.strip())
    if not m:
        return None
    v = int(m.group(2)) + int(m.group(3)) / 60.0 + float(m.group(4)) / 3600.0
    if m.group(1) == "-":
        v = -v
    return v * 15 if hours else v


def check_components(rows, ctx, sig, priorized=False, input_uuids=None):
    seen = set()
    uu = set()
    per_island = {}
    for s in rows:
        key = (s.island, s.source)
        if key in seen:
            ctx.violation("(island, source) = %r appears twice (%s)" % (key, sig), "dup_label|" + sig)
            return
        seen.add(key)
        if s.uuid in uu:
            ctx.violation("uuid %r appears twice (%s)" % (s.uuid, sig), "dup_uuid|" + sig)
        uu.add(s.uuid)
        per_island.setdefault(s.island, []).append(s.source)
        loc = "island %r source %r (%s)" % (s.island, s.source, sig)
        if not (np.isfinite(s.a) and np.isfinite(s.b) and s.a >= s.b > 0):
            ctx.violation("a=%r b=%r violates a >= b > 0 for %s" % (s.a, s.b, loc), "shape|" + sig)
        if not (-90 < s.pa <= 90):
            ctx.violation("pa=%r outside (-90, 90] for %s" % (s.pa, loc), "pa_range|" + sig)
        if not (0 <= s.ra < 360) or not (abs(s.dec) <= 90):
            ctx.violation("ra=%r dec=%r out of range for %s" % (s.ra, s.dec, loc), "coord_range|" + sig)
        if int(s.flags) != s.flags or int(s.flags) & ~ALLFLAGS or s.flags < 0:
            ctx.violation("flags=%r uses undocumented bits for %s" % (s.flags, loc), "flags|" + sig)
        ctx.outcome("flags=%d" % int(s.flags))
        for e in ("err_ra", "err_dec", "err_peak_flux", "err_int_flux", "err_a", "err_b", "err_pa"):
            v = getattr(s, e)
            if not (v == -1 or (np.isfinite(v) and v > 0)):
                ctx.violation("%s=%r is neither positive finite nor -1 for %s (flags %d)" % (e, v, loc, s.flags), "err_value_%s|%s" % (e, sig))
        ra_p, dec_p = parse_sexa(s.ra_str, True), parse_sexa(s.dec_str)
        if ra_p is None or dec_p is None:
            ctx.violation("unparsable coordinate strings %r %r for %s" % (s.ra_str, s.dec_str, loc), "strings|" + sig)
        else:
            dra = abs(((ra_p - s.ra + 180) % 360) - 180)
            if dra > 0.005 * 15 / 3600 + 1e-9 or abs(dec_p - s.dec) > 0.005 / 3600 + 1e-9:
                ctx.violation("ra_str %r / dec_str %r disagree with ra=%.8f dec=%.8f for %s" % (s.ra_str, s.dec_str, s.ra, s.dec, loc), "strings|" + sig)
        if not (int(s.flags) & 16) and all(np.isfinite([s.int_flux, s.peak_flux, s.a, s.b])) and s.psf_a and s.psf_b:
            exp = s.peak_flux * s.a * s.b / (s.psf_a * s.psf_b)
            if abs(s.int_flux - exp) > 0.01 * abs(exp):
                ctx.violation("int_flux=%.6g but peak*a*b/(psf_a*psf_b)=%.6g for %s" % (s.int_flux, exp, loc), "int_flux|" + sig)
        if priorized:
            if not (int(s.flags) & 64):
                ctx.violation("priorized component without the PRIORIZED flag: %s" % loc, "priorized_flag|" + sig)
            if input_uuids is not None and s.uuid not in input_uuids:
                ctx.violation("priorized component carries a uuid that is not in the input catalogue: %s" % loc, "priorized_uuid|" + sig)
    for isl, nums in per_island.items():
        if sorted(nums) != list(range(len(nums))):
            ctx.violation("components of island %r are numbered %r (%s)" % (isl, sorted(nums), sig), "numbering|" + sig)


def check_islands(isles, comps, img32, hdr, ctx, sig, seed_clip=5, flood_clip=4):
    ref = floodfill.islands(img32, np.zeros(img32.shape), np.full(img32.shape, scenes.RMS), seed_clip, flood_clip)
    if len(isles) != len(ref):
        ctx.violation("%d island rows, flood fill finds %d islands (%s)" % (len(isles), len(ref), sig), "island_count|" + sig)
        return
    labels = [i.island for i in isles]
    if len(set(labels)) != len(labels):
        ctx.violation("island numbers repeat: %r (%s)" % (labels, sig), "island_dup|" + sig)
    cd = abs(hdr["CDELT2"])
    for i in isles:
        # the reference island whose peak pixel is nearest to the reported position
        best = None
        for pix, box in ref:
            vals = [(abs(img32[p]), p) for p in pix]
            pk = max(vals)[1]
            ra, dec = wz.pix2sky(hdr, pk[1] + 1.0, pk[0] + 1.0)
            dist = float(sphere.dist(i.ra, i.dec, float(ra), float(dec))) / cd
            if best is None or dist < best[0]:
                best = (dist, pix, box, pk)
        dist, pix, box, pk = best
        loc = "island %r (%s)" % (i.island, sig)
        if dist > 0.1:
            ctx.violation("island position (%.6f, %.6f) is %.2f pixels from its peak pixel (row %d, col %d) for %s" % (i.ra, i.dec, dist, pk[0], pk[1], loc),
                          "island_peak_position|" + sig)
        if i.pixels != len(pix):
            ctx.violation("island reports %r pixels, flood fill %d for %s" % (i.pixels, len(pix), loc), "island_pixels|" + sig)
        if (i.x_width, i.y_width) != (box[1] - box[0], box[3] - box[2]):
            ctx.violation("island extent %rx%r, flood fill box %dx%d for %s" % (i.x_width, i.y_width, box[1] - box[0], box[3] - box[2], loc), "island_extent|" + sig)
        if abs(i.peak_flux - img32[pk]) > 1e-6 * abs(img32[pk]):
            ctx.violation("island peak flux %r, peak pixel value %r for %s" % (i.peak_flux, img32[pk], loc), "island_peak_flux|" + sig)
        n = sum(1 for c in comps if c.island == i.island)
        if i.components != n:
            ctx.violation("island row says %r components, catalogue has %d for %s" % (i.components, n, loc), "island_components|" + sig)


def catalogue_key(rows):
    out = []
    for s in rows:
        d = scenes.src_dict(s)
        d.pop("uuid", None)
        d["type"] = type(s).__name__
        out.append(d)
    return core.jdump(out)


def run_modes(f, hdr, img32, ctx, sig, modes=MODES, nonegative=False):
    """runs every mode; returns dict mode -> catalogue"""
    from AegeanTools.models import ComponentSource, IslandSource
    res = {}
    blind = None
    for mode in modes:
        ctx.count("runs")
        msig = "%s,mode=%s" % (sig, mode)
        try:
            if mode == "blind":
                out = scenes.finder().find_sources_in_image(f, rms=scenes.RMS, bkg=0.0, cores=1, docov=False, nonegative=nonegative)
                blind = [s for s in out if isinstance(s, ComponentSource)]
                check_components(blind, ctx, msig)
            elif mode == "island":
                out = scenes.finder().find_sources_in_image(f, rms=scenes.RMS, bkg=0.0, cores=1, docov=False, nonegative=nonegative, doislandflux=True)
                comps = [s for s in out if isinstance(s, ComponentSource)]
                isles = [s for s in out if isinstance(s, IslandSource)]
                check_components(comps, ctx, msig)
                if not nonegative:
                    check_islands(isles, comps, img32, hdr, ctx, msig)
                if blind is not None and catalogue_key(comps) != catalogue_key(blind):
                    ctx.violation("components differ between blind and blind+island runs (%s)" % msig, "island_mode_changes_components|" + msig)
            else:
                if not blind:
                    continue
                stage = int(mode[1])
                out = scenes.finder().priorized_fit_islands(f, catalogue=[_copy(s) for s in blind], rms=scenes.RMS, bkg=0.0, cores=1, docov=False,
                                                            stage=stage, doregroup=(mode[2] == "r"))
                check_components(out, ctx, msig, priorized=True, input_uuids=set(s.uuid for s in blind))
            res[mode] = out
        except Exception as e:
            import traceback
            ctx.violation("%s raised %r (%s) %s" % (mode, e, sig, traceback.format_exc().strip().splitlines()[-3][:120]), "raise|" + msig)
    return res


def _copy(s):
    import copy
    return copy.deepcopy(s)


def ev_scene(case, ctx):
    d = os.environ["VERIF_SCRATCH"]
    names = case["names"]
    jit = (core.seed_shift(ctx.seed, 40, 0.4), core.seed_shift(ctx.seed, 41, 0.4))
    hdr, img, srcs = scenes.build_scene(names, jitter=jit)
    f = os.path.join(d, "c03.fits")
    scenes.write_image(f, hdr, img)
    img32 = np.asarray(img, dtype=np.float32).astype(np.float64)
    sig = "scene=" + "+".join(names)
    res = run_modes(f, hdr, img32, ctx, sig)
    if res.get("blind"):
        ctx.nontrivial(sig)
    ctx.outcome("n_blind=%d" % len(res.get("blind") or []))


def ev_rejects(case, ctx):
    from AegeanTools.models import ComponentSource
    d = os.environ["VERIF_SCRATCH"]
    names = case["names"]
    hdr, img, srcs = scenes.build_scene(names)
    f = os.path.join(d, "c03r.fits")
    f2 = os.path.join(d, "c03r_nan.fits")
    scenes.write_image(f, hdr, img)
    sig0 = "rejects=" + "+".join(names)
    try:
        blind = [s for s in scenes.finder().find_sources_in_image(f, rms=scenes.RMS, bkg=0.0, cores=1, docov=False, nonegative=False)
                 if isinstance(s, ComponentSource)]
    except Exception as e:
        ctx.violation("blind run raised %r (%s)" % (e, sig0), "raise|" + sig0)
        return
    for j, victim in enumerate(blind):
        x, y = wz.sky2pix(hdr, victim.ra, victim.dec)
        r, c = int(round(float(y) - 1)), int(round(float(x) - 1))
        bad = np.array(img, dtype=float)
        bad[max(r - 1, 0):r + 2, max(c - 1, 0):c + 2] = np.nan
        scenes.write_image(f2, hdr, bad)
        for stage, regroup in ((1, True), (1, False), (2, True), (3, False)):
            ctx.count("runs")
            sig = "%s,victim=%d.%d,stage=%d,regroup=%s" % (sig0, victim.island, victim.source, stage, regroup)
            ctx.nontrivial(sig)
            try:
                out = scenes.finder().priorized_fit_islands(f2, catalogue=[_copy(s) for s in blind], rms=scenes.RMS, bkg=0.0, cores=1, docov=False,
                                                            stage=stage, doregroup=regroup)
            except Exception as e:
                ctx.violation("priorized fit with one source on blank pixels raised %r (%s)" % (e, sig), "raise|" + sig)
                continue
            ctx.outcome("rejects_n=%d/%d" % (len(out), len(blind)))
            if any(s.uuid == victim.uuid for s in out):
                ctx.outcome("rejects_victim_returned")
            check_components(out, ctx, sig, priorized=True, input_uuids=set(s.uuid for s in blind))
    for p_ in (f, f2):
        if os.path.exists(p_):
            os.remove(p_)


def ev_clips(case, ctx):
    from AegeanTools.models import ComponentSource, IslandSource
    d = os.environ["VERIF_SCRATCH"]
    names = case["names"]
    seed_clip, flood_clip = case["clips"]
    hdr, img, srcs = scenes.build_scene(names)
    f = os.path.join(d, "c03c.fits")
    scenes.write_image(f, hdr, img)
    img32 = np.asarray(img, dtype=np.float32).astype(np.float64)
    sig = "clips=%s,seed=%g,flood=%g" % ("+".join(names), seed_clip, flood_clip)
    eff_flood = min(seed_clip, flood_clip)
    res = {}
    try:
        for mode, kw in (("blind", {}), ("island", dict(doislandflux=True))):
            ctx.count("runs")
            msig = "%s,mode=%s" % (sig, mode)
            try:
                out = scenes.finder().find_sources_in_image(f, rms=scenes.RMS, bkg=0.0, cores=1, docov=False, nonegative=False,
                                                            innerclip=seed_clip, outerclip=flood_clip, **kw)
            except Exception as e:
                ctx.violation("%s run with innerclip=%g outerclip=%g raised %r (%s)" % (mode, seed_clip, flood_clip, e, sig), "raise|" + msig)
                continue
            comps = [s_ for s_ in out if isinstance(s_, ComponentSource)]
            isles = [s_ for s_ in out if isinstance(s_, IslandSource)]
            res[mode] = comps
            ctx.outcome("clips_n=%d" % len(comps))
            if comps:
                ctx.nontrivial(msig)
            check_components(comps, ctx, msig)
            if mode == "island":
                check_islands(isles, comps, img32, hdr, ctx, msig, seed_clip=seed_clip, flood_clip=eff_flood)
        if "blind" in res and "island" in res and catalogue_key(res["blind"]) != catalogue_key(res["island"]):
            ctx.violation("components differ between the blind and the blind+island run (%s)" % sig, "island_mode_changes_components|" + sig)
    finally:
        if os.path.exists(f):
            os.remove(f)


def ev_circular(case, ctx):
    from AegeanTools.models import ComponentSource
    d = os.environ["VERIF_SCRATCH"]
    kind = case["kind"]
    shape = (128, 120)
    hdr = scenes.scene_header(shape)
    if kind == "CAR":
        hdr = scenes.scene_header(shape, crval=(215.0, 0.0))
        hdr["CTYPE1"], hdr["CTYPE2"] = "RA---CAR", "DEC--CAR"
        hdr["CRPIX2"] = hdr["CRPIX2"] - 33.0 / abs(hdr["CDELT2"]) * 0 - 4000.0     # the image sits ~11 degrees from the reference latitude
    rows, cols = shape
    cpx = hdr["CRPIX1"] - 1.0
    spots = [(12.0 + 13.0 * k, cpx if kind != "SIN_offaxis" else cpx + 17.3 + 3.1 * k) for k in range(9)]
    spots += [(20.0 + 25.0 * k, 20.0) for k in range(4)] + [(30.0 + 22.0 * k, cols - 22.0) for k in range(4)]
    ii, jj = np.mgrid[0:rows, 0:cols]
    img = np.zeros(shape)
    for j, (r, c) in enumerate(spots):
        img += (0.5 + 0.02 * j) * np.exp(-0.5 * (((ii - r) / 1.7) ** 2 + ((jj - c) / 1.7) ** 2))
    f = os.path.join(d, "c03z.fits")
    scenes.write_image(f, hdr, img)
    sig = "circular=" + kind
    try:
        blind = [s_ for s_ in scenes.finder().find_sources_in_image(f, rms=scenes.RMS, bkg=0.0, cores=1, docov=False) if isinstance(s_, ComponentSource)]
    except Exception as e:
        ctx.violation("blind run raised %r (%s)" % (e, sig), "raise|" + sig)
        return
    cat = []
    for s_ in blind:
        c = _copy(s_)
        c.a = c.b = 42.5
        c.pa = 0.0
        cat.append(c)
    try:
        for (stage, regroup), ratio in itertools.product(((1, True), (2, True), (1, False), (2, False)), (None, 0.9, 1.3)):
            if ratio is not None and not regroup:
                continue
            ctx.count("runs")
            msig = "%s,stage=%d,regroup=%s" % (sig, stage, regroup) + ("" if ratio is None else ",ratio=%g" % ratio)
            ctx.nontrivial(msig)
            try:
                out = scenes.finder().priorized_fit_islands(f, catalogue=[_copy(c) for c in cat], rms=scenes.RMS, bkg=0.0, cores=1, docov=False,
                                                            stage=stage, doregroup=regroup, ratio=ratio)
            except Exception as e:
                ctx.violation("priorized fit of circular components raised %r (%s)" % (e, msig), "raise|" + msig)
                continue
            ctx.outcome("circular_n=%d" % len(out))
            for s_ in out:
                ctx.outcome("circular_pa=%s" % ("90" if s_.pa == 90 else "0" if s_.pa == 0 else "other"))
            check_components(out, ctx, msig, priorized=True, input_uuids=set(c.uuid for c in cat))
    finally:
        if os.path.exists(f):
            os.remove(f)


def ev_blankrms(case, ctx):
    from AegeanTools.models import ComponentSource, IslandSource
    d = os.environ["VERIF_SCRATCH"]
    names, gap = case["names"], case["gap"]
    hdr, img, srcs = scenes.build_scene(names)
    img = np.array(img, dtype=float)
    rows, cols = img.shape
    ii, jj = np.mgrid[0:rows, 0:cols]
    blank = np.zeros(img.shape, dtype=bool)
    for s_ in srcs:
        x, y = wz.sky2pix(hdr, s_["ra"], s_["dec"])
        r0, c0 = float(y) - 1, float(x) - 1
        # a diagonal blank wedge whose edge passes `gap` + 3 pixels from the source centre
        blank |= ((ii - r0) + (jj - c0) > (gap + 3) * np.sqrt(2.0)) & ((ii - r0) + (jj - c0) < (gap + 9) * np.sqrt(2.0)) & (np.abs((ii - r0) - (jj - c0)) < 14)
    img[blank] = np.nan
    rms = np.full(img.shape, scenes.RMS)
    rms[blank] = np.nan
    bkg = np.zeros(img.shape)
    bkg[blank] = np.nan
    f, fr, fb = [os.path.join(d, n) for n in ("c03q.fits", "c03q_rms.fits", "c03q_bkg.fits")]
    scenes.write_image(f, hdr, img)
    scenes.write_image(fr, hdr, rms)
    scenes.write_image(fb, hdr, bkg)
    sig = "blankrms=%s,gap=%d" % ("+".join(names), gap)
    try:
        for mode, kw in (("blind", {}), ("island", dict(doislandflux=True))):
            ctx.count("runs")
            msig = "%s,mode=%s" % (sig, mode)
            try:
                out = scenes.finder().find_sources_in_image(f, rmsin=fr, bkgin=fb, cores=1, docov=False, nonegative=False, **kw)
            except Exception as e:
                ctx.violation("%s run with blank-edged noise / background files raised %r (%s)" % (mode, e, sig), "raise|" + msig)
                continue
            comps = [s_ for s_ in out if isinstance(s_, ComponentSource)]
            ctx.outcome("blankrms_n=%d" % len(comps))
            if comps:
                ctx.nontrivial(msig)
            check_components(comps, ctx, msig)
    finally:
        for p_ in (f, fr, fb):
            if os.path.exists(p_):
                os.remove(p_)


def ev_big(case, ctx):
    d = os.environ["VERIF_SCRATCH"]
    kind = case["kind"]
    f = os.path.join(d, "c03b.fits")
    sig = "big=" + kind
    if kind in ("blank", "nan_image"):
        hdr = scenes.scene_header((64, 64))
        img = np.zeros((64, 64))
        if kind == "nan_image":
            img[:] = np.nan
            img[10:20, 10:20] = 0.0
        scenes.write_image(f, hdr, img)
        res = run_modes(f, hdr, img, ctx, sig, modes=["blind", "island"])
        ctx.nontrivial(sig)
        for m, out in res.items():
            if len(out) != 0:
                ctx.violation("%d sources found in an image without signal (%s, %s)" % (len(out), kind, m), "blank|" + sig)
        try:
            out = scenes.finder().priorized_fit_islands(f, catalogue=[], rms=scenes.RMS, bkg=0.0, cores=1)
            if len(out):
                ctx.violation("priorized fit of an empty catalogue returned sources", "empty_catalogue|" + sig)
        except Exception as e:
            ctx.violation("priorized fit of an empty catalogue raised %r" % (e,), "raise|%s,empty" % sig)
        return
    if kind.startswith("pole_"):
        shape = (128, 128)
        hdr = scenes.scene_header(shape, proj="SIN", crval=(40.0, 90.0 if kind == "pole_N" else -90.0))
        hdr["LONPOLE"] = 180.0
        hdr, img, srcs = scenes.grid_scene(5, shape, hdr=hdr)
        scenes.write_image(f, hdr, img)
        img32 = np.asarray(img, dtype=np.float32).astype(np.float64)
        res = run_modes(f, hdr, img32, ctx, sig, modes=["blind", "island", "p1r", "p3r", "p2n"])
        ctx.nontrivial(sig)
        b = res.get("blind") or []
        if len(b) != 25:
            ctx.violation("%d components for 25 isolated sources (%s)" % (len(b), sig), "big_count|" + sig)
        return
    if kind.startswith("wide_"):
        from mc.oracles import wcs_zenithal as wz
        from mc.oracles import skygauss
        shape = (330, 350)
        scale = 0.1
        hdr = wz.make_header(kind[5:], (35.0 + core.seed_shift(ctx.seed, 3, 20.0), -27.0), scale, shape, beam=(4 * scale, 3 * scale, 0.0),
                             crpix=(shape[1] / 2.0 + 0.5, shape[0] / 2.0 + 0.5))
        srcs = []
        k = 0
        for dist in (0.0, 50.0, 100.0, 157.0):          # pixels from the reference pixel = 0, 5, 10, 15.7 degrees
            for ang in ([0.0] if dist == 0 else [20.0, 110.0, 200.0, 290.0]):
                r = shape[0] / 2.0 - 0.5 + dist * np.cos(np.radians(ang)) + 0.3
                c = shape[1] / 2.0 - 0.5 + dist * np.sin(np.radians(ang)) - 0.2
                srcs.append(skygauss.source_at_pixel(hdr, r, c, [1.0, -0.8, 0.6][k % 3], 5.0 + 0.5 * (k % 3), 3.5, -70.0 + 25.0 * k))
                k += 1
        img = skygauss.render(hdr, shape, srcs)
        scenes.write_image(f, hdr, img)
        img32 = np.asarray(img, dtype=np.float32).astype(np.float64)
        res = run_modes(f, hdr, img32, ctx, sig, modes=["blind", "island", "p1r", "p3r", "p2n"])
        ctx.nontrivial(sig)
        b = res.get("blind") or []
        if len(b) != len(srcs):
            ctx.violation("%d components for %d isolated sources (%s)" % (len(b), len(srcs), sig), "big_count|" + sig)
        return
    n, shape = (7, (256, 256)) if kind == "grid7" else (14, (512, 512))
    hdr, img, srcs = scenes.grid_scene(n, shape)
    scenes.write_image(f, hdr, img)
    img32 = np.asarray(img, dtype=np.float32).astype(np.float64)
    res = run_modes(f, hdr, img32, ctx, sig, modes=["blind", "island", "p1r", "p3r", "p2n"])
    ctx.nontrivial(sig)
    b = res.get("blind") or []
    if len(b) != n * n:
        ctx.violation("%d components for %d isolated sources (%s)" % (len(b), n * n, sig), "big_count|" + sig)
    for m in ("p1r", "p3r", "p2n"):
        if m in res and len(res[m]) != len(b):
            ctx.violation("priorized mode %s returned %d components for %d inputs (%s)" % (m, len(res[m]), len(b), sig), "big_priorized_count|%s,%s" % (sig, m))


def ev_history(case, ctx):
    """same history => identical catalogue apart from uuids"""
    d = os.environ["VERIF_SCRATCH"]
    names = case["names"]
    hdr, img, srcs = scenes.build_scene(names)
    rs = np.random.RandomState(31337)
    img = img + np.round(rs.normal(0, 1, size=img.shape) * 1024) / 1024.0 * scenes.RMS
    f = os.path.join(d, "c03h.fits")
    scenes.write_image(f, hdr, img)
    sig = "history=" + "+".join(names)
    ctx.nontrivial(sig)
    kw = dict(rms=scenes.RMS, bkg=0.0, cores=1, docov=True, nonegative=False)
    sf = scenes.finder()
    a = sf.find_sources_in_image(f, **kw)
    b = scenes.finder().find_sources_in_image(f, **kw)
    ctx.count("history_runs", 2)
    if catalogue_key(a) != catalogue_key(b):
        ctx.violation("two fresh SourceFinder objects give different catalogues (%s)" % sig, "repro_fresh|" + sig)
    c = sf.find_sources_in_image(f, **kw)
    ctx.count("history_runs")
    if catalogue_key(a) != catalogue_key(c):
        ctx.violation("re-running on the same SourceFinder object changes the catalogue (%s): %d vs %d rows" % (sig, len(a), len(c)), "repro_same_object|" + sig)
    pa = scenes.finder().priorized_fit_islands(f, catalogue=[_copy(s) for s in a], rms=scenes.RMS, bkg=0.0, cores=1, docov=True, stage=3)
    pb = scenes.finder().priorized_fit_islands(f, catalogue=[_copy(s) for s in a], rms=scenes.RMS, bkg=0.0, cores=1, docov=True, stage=3)
    ctx.count("history_runs", 2)
    if catalogue_key(pa) != catalogue_key(pb):
        ctx.violation("two priorized runs on the same input differ (%s)" % sig, "repro_priorized|" + sig)
    # fresh processes with different hash seeds
    code = ("import sys, os; sys.path.insert(0, %r); os.environ['TQDM_DISABLE']='1'\n"
            "from checks import scenes, c03\n"
            "out = scenes.finder().find_sources_in_image(%r, rms=%r, bkg=0.0, cores=1, docov=True, nonegative=False)\n"
            "import hashlib; print('KEY', hashlib.sha1(c03.catalogue_key(out).encode()).hexdigest())\n") % (core.VERIF, f, scenes.RMS)
    import hashlib
    mine = hashlib.sha1(catalogue_key(a).encode()).hexdigest()
    for hs in ("1", "2"):
        env = dict(os.environ, PYTHONHASHSEED=hs)
        r = subprocess.run([sys.executable, "-c", code], env=env, capture_output=True, text=True)
        ctx.count("history_runs")
        m = re.search(r"KEY (\w+)", r.stdout)
        if not m:
            ctx.harness_errors.append(dict(clause="history", case=case, tb=r.stderr[-1500:]))
        elif m.group(1) != mine:
            ctx.violation("a fresh process (PYTHONHASHSEED=%s) gives a different catalogue (%s)" % (hs, sig), "repro_process|" + sig)


def ev_cli(case, ctx):
    """the aegean command line: the tables it writes hold the catalogue the API returns (blind + island, then priorized on
    its own output), and every row passes the same invariants"""
    import logging
    from AegeanTools import catalogs
    from AegeanTools.CLI import aegean as cli
    from AegeanTools.models import ComponentSource, IslandSource
    d = os.environ["VERIF_SCRATCH"]
    names, k = case["names"], case["k"]
    hdr, img, srcs = scenes.build_scene(names)
    f = os.path.join(d, "c03cli.fits")
    scenes.write_image(f, hdr, img)
    sig = "cli=" + "+".join(names)
    ctx.count("cli_runs")
    ctx.nontrivial(sig)
    logging.disable(logging.CRITICAL)
    docov = bool(k % 2)
    tab = os.path.join(d, "c03cli_out.csv")
    for sfx in ("_comp", "_isle"):
        if os.path.exists(tab.replace(".csv", sfx + ".csv")):
            os.remove(tab.replace(".csv", sfx + ".csv"))
    argv = [f, "--forcerms", str(scenes.RMS), "--forcebkg", "0", "--cores", "1", "--negative", "--island", "--table", tab]
    if not docov:
        argv.append("--nocov")
    try:
        cli.main(argv)
    except SystemExit:
        pass
    except Exception as e:
        ctx.violation("aegean CLI raised %r (%s)" % (e, sig), "cli_raise|" + sig)
        return
    api = scenes.finder().find_sources_in_image(f, rms=scenes.RMS, bkg=0.0, cores=1, docov=docov, nonegative=False, doislandflux=True)
    api_c = [s_ for s_ in api if isinstance(s_, ComponentSource)]
    api_i = [s_ for s_ in api if isinstance(s_, IslandSource)]
    fc, fi = tab.replace(".csv", "_comp.csv"), tab.replace(".csv", "_isle.csv")
    got_c = catalogs.table_to_source_list(catalogs.load_table(fc)) if os.path.exists(fc) else []
    got_i = catalogs.table_to_source_list(catalogs.load_table(fi), src_type=IslandSource) if os.path.exists(fi) else []
    if len(got_c) != len(api_c) or len(got_i) != len(api_i):
        ctx.violation("aegean CLI tables hold %d components / %d islands, the API returns %d / %d (%s)" % (len(got_c), len(got_i), len(api_c), len(api_i), sig),
                      "cli_counts|" + sig)
        return
    for a_, b_ in zip(sorted(got_c, key=lambda s_: (s_.island, s_.source)), sorted(api_c, key=lambda s_: (s_.island, s_.source))):
        for fld in ("island", "source", "ra", "dec", "peak_flux", "int_flux", "a", "b", "pa", "flags", "err_a", "err_ra", "ra_str", "dec_str"):
            x, y = getattr(a_, fld), getattr(b_, fld)
            same = (x == y) or (isinstance(y, float) and (abs(x - y) <= 1e-9 * max(abs(y), 1e-30) or (x != x and y != y)))
            if not same:
                ctx.violation("aegean CLI table: %s of component (%r,%r) is %r, API %r (%s)" % (fld, b_.island, b_.source, x, y, sig), "cli_values|" + sig)
                return
    check_components(got_c, ctx, sig + ",table")
    # priorized through the CLI on its own output
    if got_c:
        tab2 = os.path.join(d, "c03cli_p.csv")
        if os.path.exists(tab2.replace(".csv", "_comp.csv")):
            os.remove(tab2.replace(".csv", "_comp.csv"))
        stage = 1 + k % 3
        try:
            cli.main([f, "--forcerms", str(scenes.RMS), "--forcebkg", "0", "--cores", "1", "--nocov", "--priorized", str(stage), "--input", fc, "--table", tab2])
        except SystemExit:
            pass
        except Exception as e:
            ctx.violation("aegean CLI --priorized raised %r (%s)" % (e, sig), "cli_raise_priorized|" + sig)
            return
        fp = tab2.replace(".csv", "_comp.csv")
        got_p = catalogs.table_to_source_list(catalogs.load_table(fp)) if os.path.exists(fp) else []
        api_p = scenes.finder().priorized_fit_islands(f, catalogue=fc, rms=scenes.RMS, bkg=0.0, cores=1, docov=False, stage=stage)
        ctx.outcome("cli_priorized=%d" % len(got_p))
        if len(got_p) != len(api_p):
            ctx.violation("aegean CLI --priorized %d wrote %d components, the API returns %d (%s)" % (stage, len(got_p), len(api_p), sig), "cli_priorized_count|" + sig)
            return
        check_components(got_p, ctx, sig + ",priorized table", priorized=True, input_uuids=set(str(s_.uuid) for s_ in got_c))
        for a_, b_ in zip(sorted(got_p, key=lambda s_: str(s_.uuid)), sorted(api_p, key=lambda s_: str(s_.uuid))):
            if str(a_.uuid) != str(b_.uuid) or abs(a_.peak_flux - b_.peak_flux) > 1e-9 * abs(b_.peak_flux) or (a_.island, a_.source) != (b_.island, b_.source):
                ctx.violation("aegean CLI --priorized: component %s differs from the API result (%s)" % (a_.uuid, sig), "cli_priorized_values|" + sig)
                return


def evaluate(clause, case, ctx):
    dict(scene=ev_scene, big=ev_big, history=ev_history, cli=ev_cli, rejects=ev_rejects, blankrms=ev_blankrms, clips=ev_clips, circular=ev_circular)[clause](case, ctx)
