"""C08 Region operations are set algebra on sky pixels, for every history (E2 explicit-state search)."""
import itertools
import os
import time

from mc import core, histories
from checks import regsys

PROPERTY = "C08"
LEVEL = "model_checking"


def combine_regions_clause(ctx):
    """MIMAS.combine_regions: all 2^6 subsets of the six container fields against the documented order"""
    from checks import c08_combine
    c08_combine.run(ctx)
    c08_combine.run_cli(ctx)


def main(tier, seed, t0):
    depth = int(os.environ.get("VERIF_DEPTH") or (4 if tier == "quick" else 5))
    ctx = core.Ctx(PROPERTY, tier, seed, level=LEVEL)
    sysm = regsys.RegionSystem()
    res = histories.bfs(sysm, depth)
    for kind, hist, what in res.violations:
        ctx.violation("%s after history %s" % (what, " ; ".join(hist)), "%s|%s" % (kind, " ; ".join(hist)),
                      clause="history", case=dict(history=hist))
    # the same search from a non-initial state (all registers populated, X queried once)
    sys2 = regsys.RegionSystem(prefix=regsys.POPULATED)
    res2 = histories.bfs(sys2, depth - 1)
    for kind, hist, what in res2.violations:
        full = regsys.POPULATED + hist
        ctx.violation("%s after history %s" % (what, " ; ".join(full)), "%s|%s" % (kind, " ; ".join(full)),
                      clause="history", case=dict(history=full))
    ctx.evaluations = res.transitions + res2.transitions
    try:
        combine_regions_clause(ctx)
    except ImportError:
        pass
    kinds = {}
    for kind, hist, what in res.violations + res2.violations:
        kinds[kind] = kinds.get(kind, 0) + 1
    cov = dict(states=res.states + res2.states, transitions=res.transitions + res2.transitions,
               traces_validated_against_impl=res.transitions + res2.transitions,
               levels=res.levels, completed_depth=res.complete_depth, pruned_violating_states=res.pruned + res2.pruned,
               from_populated_state=dict(prefix=regsys.POPULATED, states=res2.states, transitions=res2.transitions, levels=res2.levels,
                                         completed_depth=res2.complete_depth),
               operations=len(sysm.oplist), alphabet=["%s(%s)" % o for o in sysm.oplist],
               registers=regsys.DEPTHS, violation_kinds=kinds,
               explanation="every transition executes the real Region method on a deep copy of the real objects and the "
                           "same operation on the set model (there is no separate abstract model to conform to: the "
                           "searched transition system IS the implementation); traces_validated_against_impl therefore "
                           "equals the number of transitions")
    ctx.samples = [dict(history=h) for h in res.samples]
    ctx.nontrivial_counted = res.states + res2.states
    rule = ("breadth-first search over ALL histories of the listed operation alphabet to the stated depth from the empty state, and "
            "to depth - 1 from a populated state (6 operations in, one register queried); states "
            "de-duplicated on the complete internal representation (pixeldict levels, demoted cache, aliasing); "
            "invariants evaluated on every new state; distinct_nontrivial = distinct implementation states")
    return core.finish(__import__("checks.c08", fromlist=["x"]), ctx, t0, extra_coverage=cov, exhaustive=True, rule=rule)


def evaluate(clause, case, ctx):
    """replay a stored history without the explorer"""
    if clause == "combine":
        from checks import c08_combine
        c08_combine.run(ctx)
        return
    sysm = regsys.RegionSystem()
    st = sysm.init()
    for op in case["history"]:
        try:
            st, viols = sysm.apply(st, op)
        except Exception as e:
            ctx.violation("%s raised %r" % (op, e), "op_raised|" + " ; ".join(case["history"]))
            return
        for v in viols:
            ctx.violation(v["what"], v["kind"] + "|" + " ; ".join(case["history"]))
    for v in sysm.check(st, case["history"]):
        ctx.violation(v["what"], v["kind"] + "|" + " ; ".join(case["history"]))


ASSUMPTIONS = ["healpy is the trusted geometry kernel (disc/polygon queries, point -> pixel, pixel centres)",
               "union(renorm=False) defers normalisation: after it, and until the next normalising operation on that region, "
               "the single-representation and area clauses are not judged; membership, pixel set and exports are",
               "mixed-depth union reference: a finer operand contributes every coarse pixel that has a child in it, "
               "a coarser operand contributes all descendants of its pixels",
               "registers at depths 2, 3, 3 and 5; deeper regions are covered by C09/C12"]
