"""C01 Closed-loop recovery: an injected isolated Gaussian is found and characterised (E1, bounded-exhaustive)."""
import itertools
import os

import numpy as np

from checks import scenes
from mc import core
from mc.oracles import skygauss, sphere
from mc.oracles import wcs_zenithal as wz

PROPERTY = "C01"
LEVEL = "exploration"
SHARDS = 16
RULE = ("three full products: A projection x sky location x sub-pixel phase x position angle x shape; B covariance "
        "weighting x amplitude x pixel scale x beam x position angle x phase; C a FIXED family of noise realisations x "
        "{white noise without covariance weighting, beam-correlated noise with it} x {forced rms, internal BANE} x SNR x "
        "shape; every case renders one source with an independent sky-plane Gaussian model, runs the real blind finder "
        "and compares; non-trivial = every case (one source each); distinct = distinct case")
ASSUMPTIONS = ["sources are rendered by mc/oracles/skygauss.py (gnomonic offsets about the source, PA East of North, FWHM axes) "
               "on the independent zenithal WCS model",
               "noise clause: realisations are fixed (ids, not VERIF_SEED); the noise given to a covariance-weighted fit has "
               "the autocorrelation that fit assumes (white noise convolved with the half-beam kernel); mismatched pairs are "
               "not part of the property",
               "position angle is compared modulo 180 and skipped when a/b < 1.05",
               "the strongly elongated family of the noise block (12 x 4.5 px, fixed orientations) is judged only when one component is "
               "returned: noise can add a second summit on the flat ridge, which Aegean fits by design",
               "no claim between lattice points"]

PROJ = ["SIN", "TAN", "ZEA", "ARC", "STG"]
# beam (major px, minor px, BPA deg): round, mildly and strongly elongated, position angles over the whole range incl. > 90
BEAMS_B = [(4, 3, 20), (5, 5, 0), (6, 2.5, 170), (5, 3, 135), (4.5, 3, -70)]
LOCS = [(180.0, -45.0), (0.001, 10.0), (359.999, -85.0), (45.0, 80.0)]
PHASES_T = [(0.0, 0.0), (0.25, 0.5), (0.5, 0.25), (0.75, 0.75), (0.5, 0.5), (0.0, 0.5), (0.25, 0.25), (0.75, 0.0), (0.1, 0.9)]
PAS_T = [-80.0, -45.0, 0.0, 30.0, 60.0, 90.0]
SHAPES_T = [(1.0, 1.0), (1.5, 1.0), (2.0, 1.2)]     # a, b in units of the beam axes


def axes(tier, seed):
    q = tier == "quick"
    return dict(A=dict(projection=PROJ, crval=LOCS, phase=PHASES_T[:3] if q else PHASES_T, pa=PAS_T[1::2] if q else PAS_T,
                       shape_in_beams=SHAPES_T[1:] if q else SHAPES_T),
                B=dict(docov=[True, False], amplitude=[1e-2, 1.0, 1e2], cdelt_arcsec=[3, 10, 30], beam_px=BEAMS_B,
                       pa=[-75.0, -45.0, 30.0, 90.0] if q else PAS_T, phase=PHASES_T[:2]),
                E=dict(projection=["SIN", "TAN", "ARC"], shape=[(50, 90), (90, 50)], crpix=["centre", "140 px off the image"], corner=[0, 1, 2, 3], sign=[1, -1]),
                D=dict(projection=["SIN", "ZEA"], shape_in_beams=[(1.0, 1.0), (1.2, 1.0), (1.5, 1.0)], exact_phase=[(0.5, 0.5), (0.5, 0.0), (0.0, 0.5), (0.25, 0.75)],
                       snr=[100, 1000, 10000], docov=[False, True]),
                C=dict(realisations=8 if q else 24, modes=["white+nocov", "correlated+cov"], rms=["forced", "BANE cores=1", "BANE cores=2"],
                       snr=[50, 200], shape_in_beams=[(1.5, 1.0), (2.0, 1.2)]))


def cases(tier, seed):
    q = tier == "quick"
    ph = PHASES_T[:3] if q else PHASES_T
    pas = PAS_T[1::2] if q else PAS_T
    shp = SHAPES_T[1:] if q else SHAPES_T
    for proj, loc, p, pa, s in itertools.product(PROJ, range(len(LOCS)), range(len(ph)), pas, range(len(shp))):
        yield "A", dict(proj=proj, loc=loc, phase=list(ph[p]), pa=pa, shape=list(shp[s]))
    for docov, amp, cd, beam, pa, p in itertools.product([True, False], [1e-2, 1.0, 1e2], [3.0, 10.0, 30.0], BEAMS_B,
                                                       [-75.0, -45.0, 30.0, 90.0] if q else PAS_T, range(2)):
        yield "B", dict(docov=docov, amp=amp, cdelt=cd, beam=list(beam), pa=pa, phase=list(PHASES_T[p]))
    # E: sources close to the image corners (wholly inside), non-square images, reference pixel on / far off the image, both signs
    for proj, shape, crp, corner, sign in itertools.product(["SIN", "TAN", "ARC"], [(50, 90), (90, 50)], ["centre", "off"], range(4), [1.0, -1.0]):
        yield "E", dict(proj=proj, shape=list(shape), crpix=crp, corner=corner, sign=sign)
    # D: peaks exactly between pixels (no seed shift) at high signal-to-noise, beam-sized and slightly larger sources
    for proj, shp, ph, snr, docov in itertools.product(["SIN", "ZEA"], [(1.0, 1.0), (1.2, 1.0), (1.5, 1.0)], [(0.5, 0.5), (0.5, 0.0), (0.0, 0.5), (0.25, 0.75)],
                                                     [100.0, 1000.0, 1e4], [False, True]):
        yield "D", dict(proj=proj, shape=list(shp), phase=list(ph), snr=snr, docov=docov)
    # D with elongated beams whose minor axis is coarsely sampled and lies along a pixel axis (or nearly so); the source has
    # the beam's orientation (a source narrower than the beam in some direction is outside the property)
    for proj, beam, shp, ph, snr in itertools.product(["SIN", "ZEA"], [(7.5, 3.0, 0.0), (6.6, 3.0, 90.0), (6.0, 2.5, 170.0), (8.0, 2.6, 45.0)], [(1.0, 1.0), (1.3, 1.3)],
                                                    [(0.5, 0.5), (0.5, 0.0), (0.0, 0.5), (-0.5, 0.5)], [100.0, 1e4]):
        yield "D", dict(proj=proj, shape=list(shp), phase=list(ph), snr=snr, docov=(snr > 500), beam=list(beam))
    # F: the four forced / internal combinations of noise and background on a noise-free image with a constant pedestal
    for ped, opts, ph, docov in itertools.product([2.5, -3.0, 0.0], ["rms+bkg", "rms"], [(0.0, 0.0), (0.3, -0.4)], [False, True]):
        yield "F", dict(pedestal=ped, opts=opts, phase=list(ph), docov=docov)
        if docov is False and ph == (0.0, 0.0):
            # the same image stored with a scaling keyword (float pixels in other units, 16-bit integers)
            yield "F", dict(pedestal=ped, opts=opts, phase=list(ph), docov=docov, store="bscale_float")
            yield "F", dict(pedestal=ped, opts=opts, phase=list(ph), docov=docov, store="bscale_int16")
    # G: elongated sources lying along (or within a few degrees of) a pixel axis at LOW signal-to-noise (small islands whose
    # bounding box is much longer than wide), noise-free
    for ratio, pa, snr, ph in itertools.product([2.0, 2.5, 3.0], [0.0, 4.0, 86.0, 90.0, 93.0, 177.0], [12.0, 20.0, 30.0, 45.0], [(0.0, 0.0), (0.35, -0.2)]):
        yield "G", dict(ratio=ratio, pa=pa, snr=snr, phase=list(ph))
    # I: exactly circular beams (BMAJ == BMIN): the pixel beam's axes then differ by rounding only, with either sign
    for proj, bpa, crval, ph in itertools.product(PROJ, [0.0, 90.0, 45.0], [(30.0, -40.0), (200.0, 50.0)], [(0.0, 0.0), (0.4, -0.3)]):
        yield "I", dict(proj=proj, bpa=bpa, crval=list(crval), phase=list(ph))
    # H: images whose reference point IS a celestial pole (the local "North" of the beam and of position angles turns with the
    # right ascension across such an image)
    for proj, pole, spot, pa in itertools.product(["SIN", "ZEA", "TAN"], [90.0, -90.0], [(20.3, 40.2), (33.0, 31.5), (50.4, 12.7)], [-60.0, 10.0, 80.0]):
        yield "H", dict(proj=proj, pole=pole, spot=list(spot), pa=pa)
    nreal = 8 if q else 24
    for real, mode, rmsmode, snr, s in itertools.product(range(nreal), ["white", "corr"], ["forced", "bane1", "bane2"], [50, 200], [1, 2]):
        if rmsmode != "forced" and (real % 4 != 0):
            continue   # internal BANE on every 4th realisation (160x160 images, slower)
        yield "C", dict(real=real, mode=mode, rms=rmsmode, snr=snr, shape=list(SHAPES_T[s]))
    # elongated sources at fixed orientations (the position-angle error depends on the orientation in pixel space)
    for real, pa, snr in itertools.product(range(24 if q else 40), [0.0, 35.0, 70.0, 90.0], [200, 500]):
        yield "C", dict(real=real, mode="white", rms="forced", snr=snr, shape=[3.0, 1.5], pa=pa)


def run_finder(path, **kw):
    sf = scenes.finder()
    return sf.find_sources_in_image(path, cores=kw.pop("cores", 1), innerclip=kw.pop("innerclip", 5), outerclip=4, **kw)


def compare_noisefree(out, truth, hdr, beam_deg, ctx, sig, what):
    if len(out) != 1:
        ctx.violation("%d components reported for one injected source (%s)" % (len(out), what), "count|" + sig)
        ctx.outcome("n=%d" % len(out))
        return
    s = out[0]
    ctx.outcome("n=1,flags=%d" % s.flags)
    sep = scenes.sky_sep_pix(hdr, s.ra, s.dec, truth["ra"], truth["dec"])
    ctx.note_max("pos_err_px", sep)
    if not sep <= 0.02:
        ctx.violation("position off by %.4f pixel: got (%.7f, %.7f) injected (%.7f, %.7f) (%s)" % (sep, s.ra, s.dec, truth["ra"], truth["dec"], what), "position|" + sig)
    rel = lambda a, b: abs(a - b) / abs(b)
    ctx.note_max("peak_rel", rel(s.peak_flux, truth["peak"]))
    if not rel(s.peak_flux, truth["peak"]) <= 1e-3:
        ctx.violation("peak flux %.6g, injected %.6g (%s)" % (s.peak_flux, truth["peak"], what), "peak|" + sig)
    a_t, b_t = truth["a"] * 3600, truth["b"] * 3600
    ctx.note_max("axis_rel", max(rel(s.a, a_t), rel(s.b, b_t)))
    if not (rel(s.a, a_t) <= 5e-3 and rel(s.b, b_t) <= 5e-3):
        ctx.violation("FWHM %.4f x %.4f arcsec, injected %.4f x %.4f (%s)" % (s.a, s.b, a_t, b_t, what), "axes|" + sig)
    if a_t / b_t >= 1.05:
        ctx.note_max("pa_err_deg", scenes.pa_diff(s.pa, truth["pa"]))
        if not scenes.pa_diff(s.pa, truth["pa"]) <= 0.5:
            ctx.violation("position angle %.3f, injected %.3f East of North (%s)" % (s.pa, truth["pa"], what), "pa|" + sig)
    if not (-90 < s.pa <= 90):
        ctx.violation("position angle %.3f outside (-90, 90] (%s)" % (s.pa, what), "pa_range|" + sig)
    exp_int = truth["peak"] * truth["a"] * truth["b"] / (beam_deg[0] * beam_deg[1])
    ctx.note_max("int_rel", rel(s.int_flux, exp_int))
    if not rel(s.int_flux, exp_int) <= 5e-3:
        ctx.violation("integrated flux %.6g, expected peak*a*b/(bmaj*bmin) = %.6g (%s)" % (s.int_flux, exp_int, what), "int_flux|" + sig)


def ev_A(case, ctx):
    d = os.environ["VERIF_SCRATCH"]
    cd = 10.0 / 3600
    shape = (64, 64)
    beam_px = (4.0, 3.0, 20.0)
    beam = (beam_px[0] * cd, beam_px[1] * cd, beam_px[2])
    hdr = wz.make_header(case["proj"], LOCS[case["loc"]], cd, shape, beam=beam)
    dph = core.seed_shift(ctx.seed, 20, 0.2)
    dpa = core.seed_shift(ctx.seed, 21, 8.0)
    row = 30.0 + (case["phase"][0] + dph) % 1.0
    col = 33.0 + (case["phase"][1] + 2 * dph) % 1.0
    pa = ((case["pa"] + dpa + 90) % 180) - 90
    src = skygauss.source_at_pixel(hdr, row, col, 1.0, case["shape"][0] * beam_px[0], case["shape"][1] * beam_px[1], pa)
    f = os.path.join(d, "c01.fits")
    scenes.write_image(f, hdr, skygauss.render(hdr, shape, [src]))
    sig = "A:%s,loc=%d,phase=%r,pa=%g,shape=%r" % (case["proj"], case["loc"], case["phase"], case["pa"], case["shape"])
    ctx.count("A")
    ctx.nontrivial(sig)
    try:
        out = run_finder(f, rms=0.01, docov=False)
    except Exception as e:
        ctx.violation("finder raised %r (%s)" % (e, sig), "raise|" + sig)
        return
    compare_noisefree(out, src, hdr, beam, ctx, sig, sig)


def ev_B(case, ctx):
    d = os.environ["VERIF_SCRATCH"]
    cd = case["cdelt"] / 3600
    shape = (64, 64)
    bp = case["beam"]
    beam = (bp[0] * cd, bp[1] * cd, float(bp[2]))
    hdr = wz.make_header("SIN", (201.0 + core.seed_shift(ctx.seed, 22, 10), -33.0), cd, shape, beam=beam)
    dpa = core.seed_shift(ctx.seed, 21, 8.0)
    pa = ((case["pa"] + dpa + 90) % 180) - 90
    src = skygauss.source_at_pixel(hdr, 31.0 + case["phase"][0], 30.0 + case["phase"][1], case["amp"], 1.6 * bp[0], 1.3 * bp[1], pa)
    f = os.path.join(d, "c01.fits")
    scenes.write_image(f, hdr, skygauss.render(hdr, shape, [src]))
    sig = "B:docov=%s,amp=%g,cdelt=%g,beam=%r,pa=%g,phase=%r" % (case["docov"], case["amp"], case["cdelt"], bp, case["pa"], case["phase"])
    ctx.count("B")
    ctx.nontrivial(sig)
    try:
        out = run_finder(f, rms=0.01 * case["amp"], docov=case["docov"])
    except Exception as e:
        ctx.violation("finder raised %r (%s)" % (e, sig), "raise|" + sig)
        return
    compare_noisefree(out, src, hdr, beam, ctx, sig, sig)


def ev_E(case, ctx):
    d = os.environ["VERIF_SCRATCH"]
    cd = 10.0 / 3600
    shape = tuple(case["shape"])
    rows, cols = shape
    beam_px = (4.0, 3.0, 20.0)
    beam = (beam_px[0] * cd, beam_px[1] * cd, beam_px[2])
    crpix = None if case["crpix"] == "centre" else (cols + 140.5, -75.25)
    hdr = wz.make_header(case["proj"], (311.0 + core.seed_shift(ctx.seed, 23, 5), 57.0), cd, shape, beam=beam, crpix=crpix)
    m = 11.0     # the 4-sigma footprint of a 6 x 3.6 pixel source is ~7 pixels: wholly inside
    r, c = [(m + 0.3, m + 0.6), (m + 0.7, cols - 1 - m - 0.2), (rows - 1 - m - 0.4, m + 0.1), (rows - 1 - m - 0.8, cols - 1 - m - 0.5)][case["corner"]]
    src = skygauss.source_at_pixel(hdr, r, c, case["sign"], 6.0, 3.6, -25.0 + 40.0 * case["corner"])
    f = os.path.join(d, "c01e.fits")
    scenes.write_image(f, hdr, skygauss.render(hdr, shape, [src]))
    sig = "E:%s,shape=%r,crpix=%s,corner=%d,sign=%+g" % (case["proj"], case["shape"], case["crpix"], case["corner"], case["sign"])
    ctx.count("E")
    ctx.nontrivial(sig)
    try:
        out = run_finder(f, rms=0.01, docov=(case["corner"] % 2 == 0), nonegative=False)
    except Exception as e:
        ctx.violation("finder raised %r (%s)" % (e, sig), "raise|" + sig)
        return
    compare_noisefree(out, src, hdr, beam, ctx, sig, sig)


def ev_D(case, ctx):
    d = os.environ["VERIF_SCRATCH"]
    cd = 10.0 / 3600
    shape = (64, 60)
    beam_px = tuple(case.get("beam") or (4.0, 3.0, 20.0))
    beam = (beam_px[0] * cd, beam_px[1] * cd, beam_px[2])
    hdr = wz.make_header(case["proj"], (77.0, 33.0), cd, shape, beam=beam)
    src = skygauss.source_at_pixel(hdr, 31.0 + case["phase"][0], 29.0 + case["phase"][1], 1.0, case["shape"][0] * beam_px[0],
                                   case["shape"][1] * beam_px[1], beam_px[2] if case["shape"][0] == case["shape"][1] else -35.0)
    f = os.path.join(d, "c01d.fits")
    scenes.write_image(f, hdr, skygauss.render(hdr, shape, [src]))
    sig = "D:%s,shape=%r,phase=%r,snr=%g,docov=%s" % (case["proj"], case["shape"], case["phase"], case["snr"], case["docov"])
    if case.get("beam"):
        sig += ",beam=%r" % (case["beam"],)
    ctx.count("D")
    ctx.nontrivial(sig)
    try:
        out = run_finder(f, rms=1.0 / case["snr"], docov=case["docov"])
    except Exception as e:
        ctx.violation("finder raised %r (%s)" % (e, sig), "raise|" + sig)
        return
    compare_noisefree(out, src, hdr, beam, ctx, sig, sig)


def ev_I(case, ctx):
    d = os.environ["VERIF_SCRATCH"]
    cd = 10.0 / 3600
    shape = (64, 66)
    beam = (4.0 * cd, 4.0 * cd, case["bpa"])
    hdr = wz.make_header(case["proj"], tuple(case["crval"]), cd, shape, beam=beam)
    src = skygauss.source_at_pixel(hdr, 31.0 + case["phase"][0], 33.0 + case["phase"][1], 1.0, 6.4, 4.8, 35.0)
    f = os.path.join(d, "c01i.fits")
    scenes.write_image(f, hdr, skygauss.render(hdr, shape, [src]))
    sig = "I:%s,bpa=%g,crval=%r,phase=%r" % (case["proj"], case["bpa"], tuple(case["crval"]), case["phase"])
    ctx.count("I")
    ctx.nontrivial(sig)
    for docov in (False, True):
        try:
            out = run_finder(f, rms=0.01, bkg=0.0, docov=docov)
        except Exception as e:
            ctx.violation("finder raised %r (%s)" % (e, sig), "raise|" + sig)
            return
        compare_noisefree(out, src, hdr, beam, ctx, sig + ",docov=%s" % docov, sig)


def ev_H(case, ctx):
    d = os.environ["VERIF_SCRATCH"]
    cd = 10.0 / 3600
    shape = (64, 66)
    beam_px = (4.0, 3.0, 20.0)
    beam = (beam_px[0] * cd, beam_px[1] * cd, beam_px[2])
    hdr = wz.make_header(case["proj"], (30.0 + core.seed_shift(ctx.seed, 23, 40.0), case["pole"]), cd, shape, beam=beam)
    hdr["LONPOLE"] = 180.0          # explicit (the FITS default at CRVAL2 = +90 would be 0); the reference WCS assumes 180
    src = skygauss.source_at_pixel(hdr, case["spot"][0], case["spot"][1], 1.0, 6.0, 4.0, case["pa"])
    f = os.path.join(d, "c01h.fits")
    scenes.write_image(f, hdr, skygauss.render(hdr, shape, [src]))
    sig = "H:%s,crval2=%g,spot=%r,pa=%g" % (case["proj"], case["pole"], case["spot"], case["pa"])
    ctx.count("H")
    ctx.nontrivial(sig)
    try:
        out = run_finder(f, rms=0.01, bkg=0.0, docov=False)
    except Exception as e:
        ctx.violation("finder raised %r on an image whose reference point is a pole (%s)" % (e, sig), "raise|" + sig)
        return
    # the beam of the header is defined at the reference point; away from it the local beam of these projections differs by
    # parts in 1e-4 over 30 pixels, as everywhere else
    compare_noisefree(out, src, hdr, beam, ctx, sig, sig)


def ev_G(case, ctx):
    d = os.environ["VERIF_SCRATCH"]
    cd = 10.0 / 3600
    shape = (70, 76)
    beam_px = (3.5, 3.5, 0.0)
    beam = (beam_px[0] * cd, beam_px[1] * cd, beam_px[2])
    hdr = wz.make_header("SIN", (60.0, -40.0), cd, shape, beam=beam)
    src = skygauss.source_at_pixel(hdr, 34.0 + case["phase"][0], 37.0 + case["phase"][1], 1.0, case["ratio"] * 4.0, 4.0, ((case["pa"] + 90) % 180) - 90)
    f = os.path.join(d, "c01g.fits")
    scenes.write_image(f, hdr, skygauss.render(hdr, shape, [src]))
    sig = "G:ratio=%g,pa=%g,snr=%g,phase=%r" % (case["ratio"], case["pa"], case["snr"], case["phase"])
    ctx.count("G")
    ctx.nontrivial(sig)
    for docov in (False, True):
        try:
            out = run_finder(f, rms=1.0 / case["snr"], bkg=0.0, docov=docov)
        except Exception as e:
            ctx.violation("finder raised %r (%s)" % (e, sig), "raise|" + sig)
            return
        compare_noisefree(out, src, hdr, beam, ctx, sig + ",docov=%s" % docov, sig)


def ev_F(case, ctx):
    """noise-free source on a constant pedestal of a few sigma: forced rms with forced / internally estimated background, and
    forced background (an image without noise has no internal noise estimate: rms internal + noise is block C)"""
    d = os.environ["VERIF_SCRATCH"]
    cd = 10.0 / 3600
    shape = (72, 80)
    beam_px = (4.0, 3.0, 20.0)
    beam = (beam_px[0] * cd, beam_px[1] * cd, beam_px[2])
    hdr = wz.make_header("SIN", (140.0, -25.0), cd, shape, beam=beam)
    src = skygauss.source_at_pixel(hdr, 35.0 + case["phase"][0], 41.0 + case["phase"][1], 1.0, 1.5 * beam_px[0], 1.2 * beam_px[1], 50.0)
    rms = 0.01
    ped = case["pedestal"] * rms
    f = os.path.join(d, "c01f.fits")
    phys = skygauss.render(hdr, shape, [src]) + ped
    store = case.get("store", "plain")
    if store == "plain":
        scenes.write_image(f, hdr, phys)
    else:
        from astropy.io import fits as _fits
        scale = 2.5 if store == "bscale_float" else 1.0 / 8192
        raw = (phys / scale).astype(np.float32) if store == "bscale_float" else np.round(phys / scale).astype(np.int16)
        _fits.PrimaryHDU(data=raw, header=wz.to_fits_header(hdr)).writeto(f, overwrite=True)
        with _fits.open(f, mode="update", do_not_scale_image_data=True) as hl:
            hl[0].header["BSCALE"] = scale
    sig = "F:pedestal=%g sigma,forced=%s,phase=%r,docov=%s" % (case["pedestal"], case["opts"], case["phase"], case["docov"])
    if store != "plain":
        sig += ",stored=" + store
    ctx.count("F")
    ctx.nontrivial(sig)
    kw = dict(docov=case["docov"])
    if "rms" in case["opts"]:
        kw["rms"] = rms
    if "bkg" in case["opts"]:
        kw["bkg"] = ped
    try:
        out = run_finder(f, **kw)
    except Exception as e:
        ctx.violation("finder raised %r (%s)" % (e, sig), "raise|" + sig)
        return
    compare_noisefree(out, src, hdr, beam, ctx, sig, sig)
    quant = (1.0 / 8192) if case.get("store") == "bscale_int16" else 0.0       # 16-bit storage quantises the pedestal itself
    if len(out) == 1 and not abs(out[0].background - ped) <= 1e-3 * rms + 1e-6 * abs(ped) + quant:
        ctx.violation("background column %.6g, the image's pedestal is %.6g (%s)" % (out[0].background, ped, sig), "background|" + sig)


def correlated_noise(shape, beam_px, rs):
    """unit-variance noise whose autocorrelation is a Gaussian with sigmas beam_sigma/sqrt(2): white noise convolved
    with the half-beam kernel (sigma = beam_sigma / 2), rotated to the beam position angle in pixel space"""
    from scipy.signal import fftconvolve
    s2f = 2 * np.sqrt(2 * np.log(2))
    sa, sb = beam_px[0] / s2f / 2.0, beam_px[1] / s2f / 2.0
    n = int(np.ceil(5 * max(sa, sb)))
    yy, xx = np.mgrid[-n:n + 1, -n:n + 1]     # yy = row (Aegean x), xx = col (Aegean y)
    # in Aegean pixel space theta is CCW from the x (row) axis; the beam's pixel theta is obtained from the WCS helper
    th = np.radians(beam_px[2])
    u = yy * np.cos(th) + xx * np.sin(th)
    v = -yy * np.sin(th) + xx * np.cos(th)
    k = np.exp(-0.5 * (u ** 2 / sa ** 2 + v ** 2 / sb ** 2))
    k /= np.sqrt(np.sum(k ** 2))
    w = rs.normal(0, 1, size=(shape[0] + 2 * n, shape[1] + 2 * n))
    return fftconvolve(w, k, mode="valid")


def ev_C(case, ctx):
    from AegeanTools.wcs_helpers import WCSHelper
    d = os.environ["VERIF_SCRATCH"]
    cd = 10.0 / 3600
    big = case["rms"] != "forced"
    shape = (160, 160) if big else (64, 64)
    beam_px = (4.0, 3.0, 20.0)
    beam = (beam_px[0] * cd, beam_px[1] * cd, beam_px[2])
    hdr = wz.make_header("SIN", (150.0, -30.0), cd, shape, beam=beam)
    k = case["real"]
    rs = np.random.RandomState(777000 + k)
    row = shape[0] / 2 - 1.5 + rs.uniform(0, 1)
    col = shape[1] / 2 + 1.5 + rs.uniform(0, 1)
    pa = rs.uniform(-85, 85)
    if case.get("pa") is not None:
        pa = case["pa"]
    src = skygauss.source_at_pixel(hdr, row, col, 1.0, case["shape"][0] * beam_px[0], case["shape"][1] * beam_px[1], pa)
    sigma = 1.0 / case["snr"]
    if case["mode"] == "white":
        noise = rs.normal(0, 1, size=shape)
        docov = False
    else:
        wh = WCSHelper.from_header(wz.to_fits_header(hdr))
        pa_, pb_, pt_ = wh.get_psf_sky2pix(src["ra"], src["dec"])
        noise = correlated_noise(shape, (pa_, pb_, pt_), rs)
        docov = True
    img = skygauss.render(hdr, shape, [src]) + sigma * noise
    f = os.path.join(d, "c01n.fits")
    scenes.write_image(f, hdr, img)
    sig = "C:real=%d,%s,rms=%s,snr=%d,shape=%r%s" % (k, case["mode"], case["rms"], case["snr"], case["shape"],
                                                       ",pa=%g" % case["pa"] if case.get("pa") is not None else "")
    ctx.count("C")
    ctx.nontrivial(sig)
    kw = dict(docov=docov)
    if case["snr"] > 300:
        kw["innerclip"] = 10
    if case["rms"] == "forced":
        kw.update(rms=sigma, bkg=0.0)
    else:
        kw.update(cores=1 if case["rms"] == "bane1" else 2)
    try:
        out = run_finder(f, **kw)
    except Exception as e:
        ctx.violation("finder raised %r (%s)" % (e, sig), "raise|" + sig)
        return
    # the injected source is the component nearest to the injected position; noise peaks elsewhere are not this clause
    near = [s for s in out if scenes.sky_sep_pix(hdr, s.ra, s.dec, src["ra"], src["dec"]) < 3]
    if len(near) != 1:
        if case.get("pa") is not None:
            # a strongly elongated source (12 x 4.5 pixels) has a nearly flat ridge: noise can create a second local maximum
            # on it and Aegean fits one component per summit by design; the error-calibration clause needs a single component
            ctx.count("elongated_source_split_by_noise_not_judged")
            return
        ctx.violation("%d components within 3 pixels of the injected source (%s)" % (len(near), sig), "count|" + sig)
        return
    s = near[0]
    ctx.outcome("C:flags=%d" % s.flags)
    exp_int = src["peak"] * src["a"] * src["b"] / (beam[0] * beam[1])
    dra = ((s.ra - src["ra"] + 180) % 360 - 180) * np.cos(np.radians(src["dec"]))
    zs = dict(peak=(s.peak_flux - src["peak"], s.err_peak_flux), a=(s.a - src["a"] * 3600, s.err_a), b=(s.b - src["b"] * 3600, s.err_b),
              ra=(dra, s.err_ra), dec=(s.dec - src["dec"], s.err_dec), int_flux=(s.int_flux - exp_int, s.err_int_flux))
    if src["a"] / src["b"] >= 1.05:
        dpa = ((s.pa - src["pa"] + 90) % 180) - 90
        zs["pa"] = (dpa, s.err_pa)
    for name, (dv, err) in zs.items():
        if err is None or not np.isfinite(err) or err <= 0:
            ctx.violation("no positive finite error reported for %s (%r) (%s)" % (name, err, sig), "noerr_%s|%s" % (name, sig))
            continue
        z = abs(dv) / err
        ctx.note_max("z_%s_%s" % (name, case["mode"]), z)
        ctx.extra.setdefault("zsum", 0)
        if z > 5:
            ctx.violation("%s deviates from the injected value by %.2f reported standard errors (dev %.4g, err %.4g) (%s)" % (
                name, z, dv, err, sig), "z_%s|%s" % (name, sig))


def evaluate(clause, case, ctx):
    dict(A=ev_A, B=ev_B, C=ev_C, D=ev_D, E=ev_E, F=ev_F, G=ev_G, H=ev_H, I=ev_I)[clause](case, ctx)
