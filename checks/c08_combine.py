"""C08 clause: MIMAS.combine_regions = documented construction order, for every subset of the six container fields."""
import itertools
import os

import numpy as np

from AegeanTools import MIMAS
from AegeanTools.regions import Region
from mc.oracles import hpset
from checks import regsys

MD = 4
ADD_C = (20.0, 10.0, 14.0)      # deg
REM_C = (26.0, 14.0, 8.0)
INC_C = (40.0, 20.0, 12.0)
EXC_C = (36.0, 16.0, 7.0)
INC_P = [30.0, -5.0, 55.0, -2.0, 50.0, 25.0, 28.0, 18.0]
EXC_P = [35.0, 0.0, 48.0, 2.0, 46.0, 15.0, 34.0, 12.0]


def _disc(c, depth=MD):
    return hpset.disc(depth, *np.radians(c))


def run(ctx):
    d = os.environ.get("VERIF_SCRATCH", "/dev/shm")
    fa = os.path.join(d, "cmb_add.mim")
    ff = os.path.join(d, "cmb_addfine.mim")
    fr = os.path.join(d, "cmb_rem.mim")
    ra = Region(MD)
    ra.add_circles(*np.radians(ADD_C))
    ra.save(fa)
    rf = Region(MD + 2)
    rf.add_circles(*np.radians(ADD_C))
    rf.save(ff)
    rr = Region(MD)
    rr.add_circles(*np.radians(REM_C))
    rr.save(fr)
    poly = lambda flat: hpset.polygon(MD, list(zip(flat[0::2], flat[1::2])))
    for bits in itertools.product([0, 1, 2], [0, 1], [0, 1], [0, 1], [0, 1], [0, 1]):
        c = MIMAS.Dummy(maxdepth=MD)
        model = set()
        if bits[0] == 1:
            c.add_region = [[fa]]
            model |= _disc(ADD_C)
        elif bits[0] == 2:
            c.add_region = [[ff]]
            model |= hpset.ascend(_disc(ADD_C, MD + 2), MD + 2, MD)
        if bits[1]:
            c.rem_region = [[fr]]
            model -= _disc(REM_C)
        if bits[2]:
            c.include_circles = [list(INC_C)]
            model |= _disc(INC_C)
        if bits[3]:
            c.exclude_circles = [list(EXC_C)]
            model -= _disc(EXC_C)
        if bits[4]:
            c.include_polygons = [list(INC_P)]
            model |= poly(INC_P)
        if bits[5]:
            c.exclude_polygons = [list(EXC_P)]
            model -= poly(EXC_P)
        ctx.count("combine_regions")
        sig = "combine|fields=%s" % "".join(map(str, bits))
        try:
            reg = MIMAS.combine_regions(c)
        except Exception as e:
            ctx.violation("combine_regions raised %r for fields %r" % (e, bits), "raise_" + sig,
                          clause="combine", case=dict(bits=list(bits)))
            continue
        for v in regsys.check_region(reg, frozenset(model), "combined"):
            ctx.violation("%s (container fields add/rem/inc_c/exc_c/inc_p/exc_p = %r)" % (v["what"], bits),
                          v["kind"] + "_" + sig, clause="combine", case=dict(bits=list(bits)))
    for f in (fa, ff, fr):
        os.remove(f)


def run_cli(ctx):
    """the MIMAS command line builds the same region: -o out -depth N +c / -c / +p / -p / +r / -r"""
    import logging
    from AegeanTools.CLI import MIMAS as cli
    d = os.environ.get("VERIF_SCRATCH", "/dev/shm")
    fa = os.path.join(d, "cli_add.mim")
    ra = Region(MD)
    ra.add_circles(*np.radians(ADD_C))
    ra.save(fa)
    poly = lambda flat: hpset.polygon(MD, list(zip(flat[0::2], flat[1::2])))
    logging.disable(logging.CRITICAL)
    for bits in itertools.product([0, 1], repeat=5):
        argv = ["-o", os.path.join(d, "cli_out.mim"), "-depth", str(MD)]
        model = set()
        if bits[0]:
            argv += ["+r", fa]
            model |= _disc(ADD_C)
        if bits[1]:
            argv += ["+c"] + [str(v) for v in INC_C]
            model |= _disc(INC_C)
        if bits[2]:
            argv += ["-c"] + [str(v) for v in EXC_C]
            model -= _disc(EXC_C)
        if bits[3]:
            argv += ["+p"] + [str(v) for v in INC_P]
            model |= poly(INC_P)
        if bits[4]:
            argv += ["-p"] + [str(v) for v in EXC_P]
            model -= poly(EXC_P)
        ctx.count("mimas_cli")
        sig = "mimas_cli|fields=%s" % "".join(map(str, bits))
        out = os.path.join(d, "cli_out.mim")
        if os.path.exists(out):
            os.remove(out)
        try:
            cli.main(argv)
            reg = Region.load(out)
        except SystemExit:
            continue
        except Exception as e:
            ctx.violation("MIMAS CLI %r raised %r" % (argv[4:], e), "raise_" + sig, clause="combine", case=dict(bits=list(bits)))
            continue
        if reg.maxdepth != MD:
            ctx.violation("MIMAS CLI -depth %d gives a region of depth %r" % (MD, reg.maxdepth), "depth_" + sig, clause="combine", case=dict(bits=list(bits)))
            continue
        for v in regsys.check_region(reg, frozenset(model), "cli"):
            ctx.violation("%s (MIMAS CLI %r)" % (v["what"], argv[4:]), v["kind"] + "_" + sig, clause="combine", case=dict(bits=list(bits)))
    os.remove(fa)
