"""C14 AeRes model images are the catalogue's Gaussians; subtraction closes the loop (E1, bounded-exhaustive)."""
import itertools
import os

import numpy as np
from astropy.io import fits

from checks import scenes
from mc import core
from mc.oracles import skygauss
from mc.oracles import wcs_zenithal as wz

PROPERTY = "C14"
LEVEL = "exploration"
SHARDS = 16
RULE = ("seven full products over projection x sky location x image shape (square and non-square): 'single' one source "
        "per position class (2 interior, 2 px from each edge, centre inside the outermost pixel row/column of each side, "
        "centre 3.5+ px off each side, three far-off sky positions) x size x PA x sign; 'cat' ALL 2- and 3-subsets of the "
        "17 position classes x 16 attribute rotations, and for each catalogue all non-empty subsets, all set partitions of "
        "every subset and all orderings; 'loop' blind finder -> catalogue file -> make_residual on 1-2 isolated sources "
        "x size x PA x sign x sub-pixel phase {on a pixel, between four pixels} x table format; 'addsub' add-then-subtract through files; 'mask' 1-2 positive sources x "
        "frac/sigma thresholds; 'colmap' all 64 subsets of the six renamable columns x table format, subtract and three mask modes; 'cli' the AeRes command line x mode x renamed columns x format against the API.  The expected image "
        "is rendered by an independent sky-plane Gaussian model on an independent WCS.  non-trivial = at least one source "
        "centred on the image (additivity: at least two); distinct = distinct case")
ASSUMPTIONS = ["the expected model is rendered by mc/oracles/skygauss.py (gnomonic offsets about the source, PA East of North, "
               "FWHM axes) on the independent zenithal WCS model mc/oracles/wcs_zenithal.py",
               "a source is 'centred on the image' when its centre lies within the pixel grid [-0.5, n-0.5] (0-based) on both "
               "axes; the lattice keeps every centre at least 0.15 pixel away from that boundary, and 'off the image' sources "
               "are centred at least 3.5 pixels outside it (the band between is not decided)",
               "tolerance for sums of sources is 1e-4 of the sum of the absolute peaks; 'float rounding' means 8 float32 ulp "
               "of the sum of the absolute peaks (plus the largest data value for add-then-subtract)",
               "closed loop: 'the peak' is read as the brightest absolute peak in the image; catalogues are passed through the "
               "double-precision table formats csv/vot/tab only (FITS tables are single precision by design, see C18); the finder "
               "runs with a forced rms of 0.01 x the faintest |peak|, innerclip 5, outerclip 4, docov=False; a closed-loop failure "
               "is attributed to the catalogue (class loop_finder) when AeRes' model of the extracted catalogue agrees with the "
               "independent rendering of that same catalogue, otherwise to AeRes (class loop_residual)",
               "mask mode is decided for positive sources only: for a negative source the reading of 'exceeds its threshold' "
               "is ambiguous; pixels whose expected model value lies within 1e-4 of the peak of the threshold are not decided; "
               "off-image sources in mask catalogues are the far-off ones only (their model is zero on the image)",
               "column renaming is decided for tables in which the renamed columns exist only under the new name",
               "no claim between lattice points"]

PROJ = ["SIN", "TAN", "ZEA"]
LOCS = [(180.0, -45.0), (45.0, 80.0), (359.99, -80.0)]
SHAPES = [(64, 64), (96, 80)]
SIZES = [(7.0, 4.5), (4.0, 3.0)]          # FWHM major, minor in pixels; beam is (4, 3)
PAS = [-60.0, 0.0, 45.0, 90.0]
SIGNS = [1, -1]
BEAM_PX = (4.0, 3.0, 0.0)
CD = 10.0 / 3600
ATTR = list(itertools.product(range(len(SIZES)), PAS, SIGNS))      # 16 attribute combinations
PEAKS = [1.0, 0.35, 2.5]

IN_POS = ["interiorA", "interiorB", "near_row_lo", "near_row_hi", "near_col_lo", "near_col_hi",
          "edge_row_lo", "edge_row_hi", "edge_col_lo", "edge_col_hi"]
OFF_POS = ["off_row_lo", "off_row_hi", "off_col_lo", "off_col_hi",
           "just_off_row_lo", "just_off_row_hi", "just_off_col_lo", "just_off_col_hi"]      # centre less than half a pixel beyond the image
FAR_POS = ["far_30deg", "far_antipode", "far_pole"]
ALL_POS = IN_POS + OFF_POS + FAR_POS
FORMATS = ["csv", "vot", "tab"]
COLS = ["ra", "dec", "peak_flux", "a", "b", "pa"]
COLARG = dict(ra="ra_col", dec="dec_col", peak_flux="peak_col", a="a_col", b="b_col", pa="pa_col")
ALTNAME = dict(ra="RAJ2000", dec="DEJ2000", peak_flux="Speak", a="Maj", b="Min", pa="PosAng")
MASK_MODES = [["frac", 0.0], ["frac", 0.1], ["frac", 0.5], ["frac", 0.9], ["sigma", 4.0, 0.01], ["sigma", 4.0, 0.05], ["sigma", 10.0, 0.05]]
MASK_PAIRS = [["interiorA", "interiorB"], ["interiorA", "near_row_lo"], ["interiorB", "edge_row_hi"],
              ["near_col_hi", "edge_col_lo"], ["interiorA", "far_antipode"], ["edge_row_lo", "far_pole"]]
ADDSUB_CATS = [["interiorA"], ["interiorA", "interiorB"], ["interiorA", "near_col_hi", "off_row_lo"],
               ["edge_row_hi", "near_row_lo", "far_antipode"], ["edge_col_lo", "off_col_hi", "interiorB"],
               ["off_row_hi", "far_pole"]]
EPS32 = float(np.finfo(np.float32).eps)


def combos(full):
    if full:
        return [(p, l, s) for p in PROJ for l in range(len(LOCS)) for s in range(len(SHAPES))]
    return [("SIN", 0, 0), ("TAN", 1, 1), ("ZEA", 2, 1), ("SIN", 1, 1)]


def axes(tier, seed):
    q = tier == "quick"
    return dict(common=dict(projection=PROJ, crval=LOCS, shape=SHAPES, pixel_arcsec=10, beam_px=BEAM_PX),
                single=dict(position=ALL_POS, size_px=SIZES, pa=PAS, sign=SIGNS),
                cat=dict(combos=combos(not q), positions="all 2- and 3-subsets of %d position classes" % len(ALL_POS),
                         attribute_rotation=list(range(0, 16, 4)) if q else list(range(16)),
                         inner="all non-empty subsets, all set partitions of each, all orderings"),
                loop=dict(n_sources=["1", "2opp"] if q else ["1", "2same", "2opp"], size_px=SIZES, pa=PAS[1::2] if q else PAS, sign=SIGNS,
                          subpixel_phase=["centre on a pixel", "centre between four pixels"], forced_rms="0.01 x faintest |peak|",
                          format=FORMATS if not q else "rotated over " + repr(FORMATS)),
                addsub=dict(catalogue=ADDSUB_CATS, rotation=[0, 5] if q else list(range(0, 16, 3)), format=FORMATS),
                mask=dict(single=IN_POS + FAR_POS, pairs=MASK_PAIRS, size_px=SIZES, pa=PAS, mode=MASK_MODES, via=["make_model", "make_residual"]),
                colmap=dict(renamed="all 64 subsets of " + repr(COLS), format=FORMATS, extra=["save_catalog(prefix=)"]))


def cases(tier, seed):
    q = tier == "quick"
    for proj, loc, sh in combos(True):
        for pos in ALL_POS:
            yield "single", dict(proj=proj, loc=loc, shape=sh, pos=pos)
    for fmt in FORMATS:
        for mask in range(64):
            yield "colmap", dict(fmt=fmt, mask=mask)
        yield "colmap_prefix", dict(fmt=fmt)
    for strength in (1.0, 5.0, 20.0):
        yield "sip", dict(strength=strength)
    for k in range(len(WIDE)):
        for abp in ([(4.0, 3.0, 0.0), (6.0, 5.0, 40.0)] if q else [(4.0, 3.0, 0.0), (6.0, 5.0, 40.0), (4.0, 4.0, 0.0), (8.0, 3.0, -70.0)]):
            yield "wide", dict(k=k, abp=list(abp))
        for mi, mode in enumerate(CLI_MODES):
            for ri, rmask in enumerate(CLI_RENAMES):
                if q and (mi + ri + FORMATS.index(fmt)) % 3:
                    continue
                yield "cli", dict(fmt=fmt, mode=mode, mask=rmask, model=(mi + ri) % 2)
    k = 0
    for proj, loc, sh in combos(True):
        for n, si, pa, sign, phase in itertools.product(["1", "2opp"] if q else ["1", "2same", "2opp"], range(len(SIZES)),
                                                        PAS[1::2] if q else PAS, SIGNS, ["pixel", "between"]):
            for fmt in ([FORMATS[k % 3]] if q else FORMATS):
                yield "loop", dict(proj=proj, loc=loc, shape=sh, n=n, size=si, pa=pa, sign=sign, phase=phase, fmt=fmt)
            k += 1
    for proj, loc, sh in combos(True):
        for ci in range(len(ADDSUB_CATS)):
            for v in ([0, 5] if q else range(0, 16, 3)):
                yield "addsub", dict(proj=proj, loc=loc, shape=sh, cat=ci, v=v, fmt=FORMATS[(ci + v + loc) % 3])
    for proj, loc, sh in combos(not q):
        for names in [[p] for p in IN_POS + FAR_POS] + MASK_PAIRS:
            for si in range(len(SIZES)):
                yield "mask", dict(proj=proj, loc=loc, shape=sh, pos=names, size=si)
    groups = [list(c) for c in itertools.combinations(ALL_POS, 2)] + [list(c) for c in itertools.combinations(ALL_POS, 3)]
    for proj, loc, sh in combos(not q):
        for v in (range(0, 16, 4) if q else range(16)):
            for g in groups:
                yield "cat", dict(proj=proj, loc=loc, shape=sh, pos=g, v=v)


# ---------------------------------------------------------------------------------------------------------------------
_SETUP = {}
_UNIT = {}


def setup(case, seed):
    from AegeanTools.wcs_helpers import WCSHelper
    key = (case["proj"], case["loc"], case["shape"], seed)
    if key not in _SETUP:
        _SETUP.clear()
        _UNIT.clear()
        shape = SHAPES[case["shape"]]
        ra0, dec0 = LOCS[case["loc"]]
        if case["loc"] == 0:
            ra0 += core.seed_shift(seed, 30, 20.0)
        hdr = wz.make_header(case["proj"], (ra0, dec0), CD, shape, beam=(BEAM_PX[0] * CD, BEAM_PX[1] * CD, BEAM_PX[2]))
        wh = WCSHelper.from_header(wz.to_fits_header(hdr))
        _SETUP[key] = (hdr, wh, shape)
    return _SETUP[key]


def position(name, hdr, shape, seed):
    """0-based (row, col) of a position class, or ('sky', ra, dec) for the far-off ones"""
    rows, cols = shape
    s1 = core.seed_shift(seed, 31, 1.0)      # in (0, 1)
    s2 = core.seed_shift(seed, 32, 1.0)
    midr, midc = 0.47 * rows + 0.4 * s1, 0.52 * cols + 0.4 * s2
    edge_in = 0.3 - 0.15 * s1                # centre this far outside the outermost pixel centre, still inside the image
    off = 4.0 + s2                           # centre this far outside the outermost pixel centre (>= 3.5 px off the image)
    table = dict(interiorA=(midr, midc), interiorB=(midr + 2.8, midc - 3.4),
                 near_row_lo=(2.0 + 0.2 * s1, midc + 5), near_row_hi=(rows - 3.0 - 0.2 * s1, midc - 6),
                 near_col_lo=(midr - 7, 2.0 + 0.2 * s2), near_col_hi=(midr + 6, cols - 3.0 - 0.2 * s2),
                 edge_row_lo=(-edge_in, midc - 9), edge_row_hi=(rows - 1 + edge_in, midc + 8),
                 edge_col_lo=(midr + 9, -edge_in), edge_col_hi=(midr - 10, cols - 1 + edge_in),
                 just_off_row_lo=(-0.65 - 0.25 * s1, midc - 14), just_off_row_hi=(rows - 1 + 0.65 + 0.25 * s2, midc + 13),
                 just_off_col_lo=(midr + 13, -0.65 - 0.25 * s2), just_off_col_hi=(midr - 14, cols - 1 + 0.65 + 0.25 * s1),
                 off_row_lo=(-off, midc + 2), off_row_hi=(rows - 1 + off, midc - 3),
                 off_col_lo=(midr - 2, -off), off_col_hi=(midr + 3, cols - 1 + off))
    if name in table:
        return table[name]
    ra0, dec0 = hdr["CRVAL1"], hdr["CRVAL2"]
    if name == "far_30deg":
        return ("sky", (ra0 + 30.0) % 360.0, dec0)
    if name == "far_antipode":
        return ("sky", (ra0 + 180.0) % 360.0, -dec0)
    if name == "far_pole":
        return ("sky", ra0, -90.0 if dec0 > 0 else 90.0)
    raise KeyError(name)


def make_source(name, hdr, shape, seed, size_idx, pa, peak):
    a_px, b_px = SIZES[size_idx]
    pa = pa + core.seed_shift(seed, 33, 3.0)
    p = position(name, hdr, shape, seed)
    if p[0] == "sky":
        s = dict(ra=float(p[1]), dec=float(p[2]), peak=peak, a=a_px * CD, b=b_px * CD, pa=pa, row=None, col=None)
    else:
        s = skygauss.source_at_pixel(hdr, p[0], p[1], peak, a_px, b_px, pa)
    s["pos"] = name
    s["size"] = size_idx
    s["pa0"] = pa
    s["in"] = name in IN_POS
    return s


def unit_image(hdr, shape, s):
    """expected image of the source for peak = 1 (cached per (position, size, pa) inside one header)"""
    key = (s["pos"], s["size"], s["pa0"])
    if key not in _UNIT:
        if len(_UNIT) > 400:
            _UNIT.clear()
        u = dict(s)
        u["peak"] = 1.0
        _UNIT[key] = skygauss.render(hdr, shape, [u])
    return _UNIT[key]


def expected(hdr, shape, srcs):
    img = np.zeros(shape, dtype=np.float64)
    for s in srcs:
        if s["in"]:
            img += s["peak"] * unit_image(hdr, shape, s)
    return img


def component(s, idx=0, rms=0.01):
    from AegeanTools.models import ComponentSource
    c = ComponentSource()
    c.island = idx
    c.source = 0
    c.background = 0.0
    c.local_rms = rms
    c.ra = s["ra"]
    c.dec = s["dec"]
    c.ra_str = "00:00:00.00"
    c.dec_str = "+00:00:00.00"
    c.peak_flux = s["peak"]
    c.err_peak_flux = 0.0
    c.int_flux = s["peak"]
    c.a = s["a"] * 3600.0
    c.b = s["b"] * 3600.0
    c.pa = s["pa"]
    return c


def describe(s):
    where = "row %.2f col %.2f (0-based)" % (s["row"], s["col"]) if s["row"] is not None else "ra %.4f dec %.4f" % (s["ra"], s["dec"])
    return "%s[%s; peak %+g, FWHM %gx%g px, pa %.1f]" % (s["pos"], where, s["peak"], SIZES[s["size"]][0], SIZES[s["size"]][1], s["pa"])


def combo_sig(case):
    return "%s,loc=%d,%dx%d" % (case["proj"], case["loc"], SHAPES[case["shape"]][0], SHAPES[case["shape"]][1])


def diagnose(resid, hdr, shape, srcs):
    """least-squares decomposition of (observed - expected) on the expected images of the in-image sources:
    a coefficient of -1 means that source is missing from the observed model"""
    ins = [s for s in srcs if s["in"]]
    if not ins:
        return [], None
    A = np.stack([(s["peak"] * unit_image(hdr, shape, s)).ravel() for s in ins], axis=1)
    r = np.where(np.isfinite(resid), resid, 0.0).ravel()
    c, _, _, _ = np.linalg.lstsq(A, r, rcond=None)
    left = float(np.max(np.abs(r - A.dot(c))))
    return list(zip(ins, [float(x) for x in c])), left


def compare_model(ctx, obs, hdr, shape, srcs, tag, sig, note):
    """clause 1: observed model (or data difference) against the independent rendering; returns True when it agrees"""
    exp = expected(hdr, shape, srcs)
    tot = sum(abs(s["peak"]) for s in srcs if s["in"]) or max(abs(s["peak"]) for s in srcs)
    obs = np.asarray(obs, dtype=np.float64)
    if obs.shape != tuple(shape):
        ctx.violation("%s: model shape %r, image shape %r (%s)" % (tag, obs.shape, tuple(shape), sig), "shape|" + sig)
        return False
    if not np.all(np.isfinite(obs)):
        ctx.violation("%s: %d non-finite model pixels (%s)" % (tag, int(np.sum(~np.isfinite(obs))), sig), "nonfinite|" + sig)
        return False
    err = float(np.max(np.abs(obs - exp))) / tot
    ctx.note_max(note if err <= 1e-4 else note + "_in_violations", err)
    if err <= 1e-4:
        return True
    w = np.unravel_index(int(np.argmax(np.abs(obs - exp))), exp.shape)
    parts, left = diagnose(obs - exp, hdr, shape, srcs)
    missing = [s for s, c in parts if abs(c + 1.0) < 1e-3]
    if missing and left <= 1e-4 * tot:
        for s in missing:
            ctx.violation("%s: source %s is centred on the %dx%d image (pixel grid spans [-0.5, %g] x [-0.5, %g]) but is absent from the "
                          "model: observed - expected = -1.000 x its Gaussian (largest difference %.4g of the peak at pixel %r) (%s)" % (
                              tag, describe(s), shape[0], shape[1], shape[0] - 0.5, shape[1] - 0.5, err, tuple(int(x) for x in w), sig),
                          "dropped|pos=%s,%s" % (s["pos"], sig))
        ctx.outcome(tag + ":source_dropped")
        return False
    ctx.violation("%s: model differs from the independent rendering by %.4g of the peak at pixel %r (observed %.6g, expected %.6g); "
                  "least-squares excess per source %s; sources %s (%s)" % (
                      tag, err, tuple(int(x) for x in w), obs[w], exp[w], ["%s:%+.4f" % (s["pos"], c) for s, c in parts],
                      [describe(s) for s in srcs], sig), "model|" + sig)
    ctx.outcome(tag + ":mismatch")
    return False


# ---------------------------------------------------------------------------------------------------------------------
def ev_single(case, ctx):
    from AegeanTools import AeRes
    hdr, wh, shape = setup(case, ctx.seed)
    name = case["pos"]
    for si, pa, sign in ATTR:
        s = make_source(name, hdr, shape, ctx.seed, si, pa, 1.5 * sign)
        sig = "single:pos=%s,%s,size=%d,pa=%g,sign=%+d" % (name, combo_sig(case), si, pa, sign)
        ctx.count("single")
        try:
            m = AeRes.make_model([component(s)], shape, wh)
        except Exception as e:
            ctx.violation("make_model raised %r for %s (%s)" % (e, describe(s), sig), "raise|" + sig)
            ctx.outcome("single:raise")
            continue
        if s["in"]:
            ctx.nontrivial(sig)
            if compare_model(ctx, m, hdr, shape, [s], "single", sig, "single_err_over_peak"):
                ctx.outcome("single:agrees")
        else:
            # clause 3: a source centred off the image contributes nothing
            bad = int(np.count_nonzero(np.asarray(m) != 0)) if np.asarray(m).shape == tuple(shape) else -1
            if bad != 0:
                ctx.violation("source %s is centred off the image but its model has %d non-zero pixels (%s)" % (describe(s), bad, sig),
                              "off_contributes|" + sig)
                ctx.outcome("single:off_nonzero")
            else:
                ctx.outcome("single:off_ignored")


def set_partitions(items):
    if len(items) == 1:
        yield [items]
        return
    first, rest = items[0], items[1:]
    for p in set_partitions(rest):
        for i in range(len(p)):
            yield p[:i] + [[first] + p[i]] + p[i + 1:]
        yield [[first]] + p


def ev_cat(case, ctx):
    from AegeanTools import AeRes
    hdr, wh, shape = setup(case, ctx.seed)
    names = case["pos"]
    v = case["v"]
    srcs = []
    for j, name in enumerate(names):
        si, pa, sign = ATTR[(v + 7 * j) % 16]
        srcs.append(make_source(name, hdr, shape, ctx.seed, si, pa, sign * PEAKS[j]))
    comps = [component(s, j) for j, s in enumerate(srcs)]
    sig = "cat:pos=%s,%s,v=%d" % ("+".join(names), combo_sig(case), v)
    n = len(srcs)
    n_in = sum(1 for s in srcs if s["in"])
    ctx.count("cat")
    tot = sum(abs(s["peak"]) for s in srcs)
    idx = list(range(n))
    models = {}
    try:
        for k in range(1, n + 1):
            for sub in itertools.combinations(idx, k):
                models[sub] = np.asarray(AeRes.make_model([comps[i] for i in sub], shape, wh), dtype=np.float64)
    except Exception as e:
        ctx.violation("make_model raised %r for a sub-catalogue of %s (%s)" % (e, [describe(s) for s in srcs], sig), "raise|" + sig)
        ctx.outcome("cat:raise")
        return
    full = models[tuple(idx)]
    if n_in >= 1:
        ctx.nontrivial_n(1)
    ctx.outcome("cat:n=%d,in=%d" % (n, n_in))
    # clause 1 on the whole catalogue
    ok = compare_model(ctx, full, hdr, shape, srcs, "cat", sig, "cat_err_over_sum_of_peaks")
    # clause 2: every non-empty subset, every set partition of it
    tol = 8 * EPS32 * tot
    worst = 0.0
    for sub, msub in models.items():
        if len(sub) < 2:
            continue
        for part in set_partitions(list(sub)):
            if len(part) < 2:
                continue
            ctx.count("cat_partitions")
            acc = np.zeros(shape, dtype=np.float64)
            for block in part:
                acc += models[tuple(sorted(block))]
            d = float(np.max(np.abs(acc - msub)))
            worst = max(worst, d / tot)
            if not d <= tol:
                ctx.violation("additivity: model(%r) differs from the sum of the models of the blocks %r by %.4g (sum of |peaks| %.3g); sources %s (%s)" % (
                    [names[i] for i in sub], [[names[i] for i in b] for b in part], d, tot, [describe(s) for s in srcs], sig),
                    "additivity|" + sig)
    ctx.note_max("additivity_err_over_sum_of_peaks", worst)
    # every ordering of the catalogue gives the same image
    for perm in itertools.permutations(idx):
        if list(perm) == idx:
            continue
        ctx.count("cat_orderings")
        try:
            mp = np.asarray(AeRes.make_model([comps[i] for i in perm], shape, wh), dtype=np.float64)
        except Exception as e:
            ctx.violation("make_model raised %r for ordering %r (%s)" % (e, perm, sig), "raise|" + sig)
            continue
        d = float(np.max(np.abs(mp - full)))
        if not d <= tol:
            ctx.violation("ordering %r of the catalogue changes the model by %.4g; sources %s (%s)" % (
                perm, d, [describe(s) for s in srcs], sig), "order|" + sig)
    # clause 3: the sources centred off the image change nothing
    if n_in < n:
        ctx.count("cat_with_off_image_sources")
        on = tuple(i for i in idx if srcs[i]["in"])
        ref = models[on] if on else np.zeros(shape, dtype=np.float64)
        d = float(np.max(np.abs(full - ref)))
        if not d <= tol:
            ctx.violation("the off-image sources %r change the model by %.4g (%s)" % (
                [describe(srcs[i]) for i in idx if not srcs[i]["in"]], d, sig), "off_contributes|" + sig)
    return ok


def _cleanup(paths):
    for p in paths:
        try:
            os.remove(p)
        except OSError:
            pass


_OWN_SCRATCH = []


def _scratch(*names):
    d = os.environ.get("VERIF_SCRATCH")
    if not d:
        # run_check.py --replay does not provide a scratch directory: make a private one and remove it at exit
        if not _OWN_SCRATCH:
            import atexit
            import shutil
            import tempfile
            base = "/dev/shm" if os.path.isdir("/dev/shm") and os.access("/dev/shm", os.W_OK) else None
            _OWN_SCRATCH.append(tempfile.mkdtemp(prefix="aegean_verif_c14_", dir=base))
            atexit.register(shutil.rmtree, _OWN_SCRATCH[0], ignore_errors=True)
        d = _OWN_SCRATCH[0]
    return [os.path.join(d, n) for n in names]


def write_catalogue(comps, fmt, base="c14cat"):
    """write with the package's own writer (the way an Aegean catalogue reaches AeRes); returns the component file"""
    from AegeanTools import catalogs
    path, = _scratch("%s.%s" % (base, fmt))
    catalogs.save_catalog(path, comps)
    return os.path.join(os.path.dirname(path), "%s_comp.%s" % (base, fmt))


def ev_loop(case, ctx):
    from AegeanTools import AeRes
    hdr, wh, shape = setup(case, ctx.seed)
    rows, cols = shape
    s1 = core.seed_shift(ctx.seed, 34, 1.0)
    s2 = core.seed_shift(ctx.seed, 35, 1.0)
    si, pa, sign = case["size"], case["pa"], case["sign"]
    # sub-pixel phase of the centres: on a pixel centre, or between four pixels (never an exact tie)
    ph = (0.15 * s1, 0.10 * s2) if case["phase"] == "pixel" else (0.51 + 0.02 * s1, 0.505 + 0.02 * s2)
    a1, b1 = SIZES[si]
    srcs = [skygauss.source_at_pixel(hdr, int(0.31 * rows) + ph[0], int(0.35 * cols) + ph[1], 1.0 * sign, a1, b1, pa + 2 * s1)]
    if case["n"] != "1":
        a2, b2 = SIZES[1 - si]
        sign2 = sign if case["n"] == "2same" else -sign
        srcs.append(skygauss.source_at_pixel(hdr, int(0.69 * rows) + ph[1], int(0.66 * cols) + ph[0], 0.6 * sign2, a2, b2,
                                             PAS[(PAS.index(pa) + 1) % 4] - s1))
    peak = max(abs(s["peak"]) for s in srcs)
    rms = 0.01 * min(abs(s["peak"]) for s in srcs)
    img = skygauss.render(hdr, shape, srcs)
    sig = "size=%d,phase=%s,loop:%s,n=%s,pa=%g,sign=%+d,%s" % (si, case["phase"], combo_sig(case), case["n"], pa, sign, case["fmt"])
    f, r, m = _scratch("c14img.fits", "c14res.fits", "c14mod.fits")
    scenes.write_image(f, hdr, img)
    ctx.count("loop")
    ctx.nontrivial(sig)
    cat = None
    try:
        out = scenes.finder().find_sources_in_image(f, rms=rms, cores=1, docov=False, innerclip=5, outerclip=4)
        ctx.outcome("loop:found=%d/%d" % (len(out), len(srcs)))
        if len(out) == 0:
            ctx.violation("the finder returned no source for %d injected (%s)" % (len(srcs), sig), "loop_nofind|" + sig)
            return
        cat = write_catalogue(out, case["fmt"])
        AeRes.make_residual(f, cat, r, mfile=m)
        res = np.array(fits.getdata(r), dtype=np.float64)
        mod = np.array(fits.getdata(m), dtype=np.float64)
    except Exception as e:
        ctx.violation("find -> save -> make_residual raised %r (%s)" % (e, sig), "raise|" + sig)
        ctx.outcome("loop:raise")
        return
    finally:
        _cleanup([f, r, m] + ([cat] if cat else []))
    worst = float(np.nanmax(np.abs(res))) / peak if np.all(np.isfinite(res)) else np.inf
    ctx.note_max("loop_residual_over_peak" if worst < 1e-3 else "loop_residual_over_peak_in_violations", worst if np.isfinite(worst) else 1e30)
    if not worst < 1e-3:
        w = np.unravel_index(int(np.nanargmax(np.abs(res))), res.shape) if np.any(np.isfinite(res)) else None
        # whose fault: render the EXTRACTED catalogue independently; when AeRes' model file agrees with that, AeRes drew
        # what the catalogue says and the catalogue itself does not describe the image
        ext = [dict(ra=float(o.ra), dec=float(o.dec), peak=float(o.peak_flux), a=float(o.a) / 3600, b=float(o.b) / 3600, pa=float(o.pa)) for o in out]
        faithful = bool(np.all(np.isfinite(mod))) and float(np.max(np.abs(mod - skygauss.render(hdr, shape, ext)))) <= 1e-4 * peak
        notes = []
        img32 = np.abs(np.asarray(img, dtype=np.float32).astype(np.float64))
        for s in srcs:
            near = [o for o in out if scenes.sky_sep_pix(hdr, o.ra, o.dec, s["ra"], s["dec"]) < 2]
            r0, c0 = int(round(s["row"])), int(round(s["col"]))
            pix = float(np.max(img32[max(r0 - 2, 0):r0 + 3, max(c0 - 2, 0):c0 + 3]))
            cap = 1.05 * pix + 5 * rms
            for o in near:
                notes.append("injected peak %+.6f FWHM %.3fx%.3f\" pa %.2f -> extracted peak %+.6f FWHM %.3fx%.3f\" pa %.2f flags %d "
                             "(brightest pixel %.6f; 1.05 x brightest pixel + innerclip x rms = %.6f%s)" % (
                                 s["peak"], s["a"] * 3600, s["b"] * 3600, s["pa"], o.peak_flux, o.a, o.b, o.pa, o.flags, pix, cap,
                                 " = |extracted peak|: the fit sits on its amplitude bound" if abs(abs(o.peak_flux) - cap) < 1e-6 else ""))
        ctx.violation("residual after subtracting the extracted catalogue is %.4g of the peak at pixel %r; AeRes' model of the extracted catalogue %s "
                      "the independent rendering of that catalogue; %d extracted for %d injected: %s (%s)" % (
                          worst, tuple(int(x) for x in w) if w is not None else None, "agrees with" if faithful else "DIFFERS from",
                          len(out), len(srcs), "; ".join(notes), sig), ("loop_finder|" if faithful else "loop_residual|") + sig)
        ctx.outcome("loop:catalogue_wrong" if faithful else "loop:residual")
    d = float(np.max(np.abs(res + mod - np.asarray(img, dtype=np.float32).astype(np.float64))))
    if not d <= 8 * EPS32 * 2 * peak:
        ctx.violation("model file + residual file differ from the input image by %.4g (%s)" % (d, sig), "loop_files|" + sig)


def ev_addsub(case, ctx):
    from AegeanTools import AeRes
    hdr, wh, shape = setup(case, ctx.seed)
    names = ADDSUB_CATS[case["cat"]]
    v = case["v"]
    srcs = []
    for j, name in enumerate(names):
        si, pa, sign = ATTR[(v + 7 * j) % 16]
        srcs.append(make_source(name, hdr, shape, ctx.seed, si, pa, sign * PEAKS[j]))
    comps = [component(s, j) for j, s in enumerate(srcs)]
    sig = "addsub:pos=%s,%s,v=%d,%s" % ("+".join(names), combo_sig(case), v, case["fmt"])
    rs = np.random.RandomState(1400 + case["cat"] * 16 + v)
    data = (0.2 * rs.normal(0, 1, size=shape) + 0.5 * expected(hdr, shape, srcs)).astype(np.float32)
    tot = sum(abs(s["peak"]) for s in srcs)
    f, r0, r1, r2, m1 = _scratch("c14d.fits", "c14r0.fits", "c14r1.fits", "c14r2.fits", "c14m1.fits")
    scenes.write_image(f, hdr, data)
    ctx.count("addsub")
    if any(s["in"] for s in srcs):
        ctx.nontrivial(sig)
    cat = None
    try:
        cat = write_catalogue(comps, case["fmt"])
        AeRes.make_residual(f, cat, r0)
        AeRes.make_residual(f, cat, r1, mfile=m1, add=True)
        AeRes.make_residual(r1, cat, r2)
        d0, d1, d2, mm = [np.array(fits.getdata(p), dtype=np.float64) for p in (r0, r1, r2, m1)]
    except Exception as e:
        ctx.violation("make_residual raised %r; sources %s (%s)" % (e, [describe(s) for s in srcs], sig), "raise|" + sig)
        ctx.outcome("addsub:raise")
        return
    finally:
        _cleanup([f, r0, r1, r2, m1] + ([cat] if cat else []))
    d64 = data.astype(np.float64)
    ok = compare_model(ctx, mm, hdr, shape, srcs, "addsub model file", sig, "addsub_model_err")
    compare_model(ctx, d1 - d64, hdr, shape, srcs, "addsub add=True minus input", sig, "addsub_add_err") if ok else None
    compare_model(ctx, d64 - d0, hdr, shape, srcs, "addsub input minus residual", sig, "addsub_sub_err") if ok else None
    tol = 8 * EPS32 * (float(np.max(np.abs(d64))) + tot)
    back = float(np.max(np.abs(d2 - d64))) if np.all(np.isfinite(d2)) else np.inf
    ctx.note_max("addsub_restore_err_over_tol", back / tol if np.isfinite(back) else 1e30)
    if not back <= tol:
        ctx.violation("add then subtract does not restore the image: largest difference %.4g (float32 rounding allows %.3g); sources %s (%s)" % (
            back, tol, [describe(s) for s in srcs], sig), "restore|" + sig)
        ctx.outcome("addsub:not_restored")
    else:
        ctx.outcome("addsub:restored")


def ev_mask(case, ctx):
    from AegeanTools import AeRes
    hdr, wh, shape = setup(case, ctx.seed)
    names = case["pos"]
    si = case["size"]
    rs = np.random.RandomState(1499)
    data = rs.normal(0, 1, size=shape).astype(np.float32)
    f, r = _scratch("c14md.fits", "c14mr.fits")
    for pa in PAS:
        srcs = [make_source(name, hdr, shape, ctx.seed, si if j == 0 else 1 - si, PAS[(PAS.index(pa) + j) % 4], [1.0, 0.45][j])
                for j, name in enumerate(names)]
        for mode in MASK_MODES:
            for via in ("make_model", "make_residual"):
                sig = "mask:pos=%s,%s,size=%d,pa=%g,%s,%s" % ("+".join(names), combo_sig(case), si, pa, "/".join(str(x) for x in mode), via)
                ctx.count("mask")
                if mode[0] == "frac":
                    frac, sigma = mode[1], 4
                    thr = [frac * s["peak"] for s in srcs]
                    rms = [0.01 * s["peak"] for s in srcs]
                else:
                    frac, sigma = None, mode[1]
                    rms = [mode[2] * s["peak"] for s in srcs]
                    thr = [sigma * x for x in rms]
                comps = [component(s, j, rms[j]) for j, s in enumerate(srcs)]
                want = np.zeros(shape, dtype=bool)
                unsure = np.zeros(shape, dtype=bool)
                per = []
                for s, t in zip(srcs, thr):
                    if not s["in"]:
                        per.append(None)
                        continue
                    g = s["peak"] * unit_image(hdr, shape, s)
                    band = np.abs(g - t) <= 1e-4 * abs(s["peak"])
                    yes = (g >= t) & ~band
                    per.append(yes)
                    want |= yes
                    unsure |= band
                unsure &= ~want
                cat = None
                try:
                    if via == "make_model":
                        m = np.asarray(AeRes.make_model(comps, shape, wh, True, frac, sigma))
                        blank = np.isnan(m)
                        untouched = (m == 0)
                    else:
                        scenes.write_image(f, hdr, data)
                        cat = write_catalogue(comps, "csv", "c14mask")
                        AeRes.make_residual(f, cat, r, mask=True, frac=frac, sigma=sigma)
                        out = np.array(fits.getdata(r))
                        blank = np.isnan(out)
                        untouched = (out == data)
                except Exception as e:
                    ctx.violation("mask mode raised %r; sources %s (%s)" % (e, [describe(s) for s in srcs], sig), "raise|" + sig)
                    ctx.outcome("mask:raise")
                    continue
                finally:
                    _cleanup([f, r] + ([cat] if cat else []))
                if want.any() and not want.all():
                    ctx.nontrivial(sig)
                decided = ~unsure
                miss = want & ~blank & decided
                extra = blank & ~want & decided
                changed = ~blank & ~untouched
                if miss.any() or extra.any():
                    dropped = [j for j, y in enumerate(per) if y is not None and y.any() and not (blank & y).any()]
                    theirs = np.zeros(shape, dtype=bool)
                    for j in dropped:
                        theirs |= per[j]
                    if dropped and not extra.any() and not (miss & ~theirs).any():
                        for j in dropped:
                            ctx.violation("mask: source %s is centred on the image, %d pixels of its model reach the threshold %.4g, none is blanked (%s)" % (
                                describe(srcs[j]), int(per[j].sum()), thr[j], sig), "dropped|pos=%s,%s" % (srcs[j]["pos"], sig))
                        ctx.outcome("mask:source_dropped")
                    else:
                        ctx.violation("mask: %d pixels at or above the threshold are not blanked and %d pixels below it are (expected %d blanked, "
                                      "observed %d; thresholds %r; first wrong pixel %r); sources %s (%s)" % (
                                          int(miss.sum()), int(extra.sum()), int(want.sum()), int(blank.sum()), thr,
                                          tuple(int(x) for x in np.argwhere(miss | extra)[0]), [describe(s) for s in srcs], sig), "mask|" + sig)
                        ctx.outcome("mask:wrong")
                elif changed.any():
                    ctx.violation("mask: %d pixels that are not blanked were changed (%s)" % (int(changed.sum()), sig), "mask_changed|" + sig)
                    ctx.outcome("mask:changed")
                else:
                    ctx.outcome("mask:exact" if want.any() else "mask:nothing_to_blank")


def _table(srcs, rename):
    from astropy.table import Table
    cols = dict(island=[j for j in range(len(srcs))], source=[0] * len(srcs), background=[0.0] * len(srcs),
                local_rms=[0.01] * len(srcs), ra=[s["ra"] for s in srcs], dec=[s["dec"] for s in srcs],
                peak_flux=[s["peak"] for s in srcs], int_flux=[2 * s["peak"] for s in srcs], a=[s["a"] * 3600 for s in srcs],
                b=[s["b"] * 3600 for s in srcs], pa=[s["pa"] for s in srcs], flags=[0] * len(srcs))
    t = Table(cols)
    for old, new in rename.items():
        t.rename_column(old, new)
    return t


def _write_table(t, path, fmt):
    if fmt == "csv":
        t.write(path, format="ascii.csv", overwrite=True)
    elif fmt == "tab":
        t.write(path, format="ascii.tab", overwrite=True)
    else:
        t.write(path, format="votable", overwrite=True)


def _same_sources(ctx, got, srcs, sig, what):
    if got is None or len(got) != len(srcs):
        ctx.violation("%s: load_sources returned %s for a table of %d sources (%s)" % (
            what, "None" if got is None else "%d sources" % len(got), len(srcs), sig), "colmap_count|" + sig)
        return False
    ok = True
    for j, (g, s) in enumerate(zip(got, srcs)):
        want = dict(ra=s["ra"], dec=s["dec"], peak_flux=s["peak"], a=s["a"] * 3600, b=s["b"] * 3600, pa=s["pa"])
        for k, w in want.items():
            val = getattr(g, k, None)
            try:
                good = abs(float(val) - w) <= 1e-12 * max(1.0, abs(w))
            except (TypeError, ValueError):
                good = False
            if not good:
                ok = False
                ctx.violation("%s: source %d has %s = %r, the table says %r (%s)" % (what, j, k, val, w, sig), "colmap_value|" + sig)
    return ok


def _colmap_scene(ctx):
    case = dict(proj="SIN", loc=0, shape=1)
    hdr, wh, shape = setup(case, ctx.seed)
    srcs = [make_source("interiorA", hdr, shape, ctx.seed, 0, -60.0, 1.0), make_source("near_col_hi", hdr, shape, ctx.seed, 1, 45.0, -0.35),
            make_source("off_row_lo", hdr, shape, ctx.seed, 0, 90.0, 2.5)]
    return hdr, wh, shape, srcs


def ev_colmap(case, ctx):
    from AegeanTools import AeRes
    hdr, wh, shape, srcs = _colmap_scene(ctx)
    fmt = case["fmt"]
    renamed = [c for i, c in enumerate(COLS) if case["mask"] >> i & 1]
    rename = {c: ALTNAME[c] for c in renamed}
    kw = {COLARG[c]: ALTNAME[c] for c in renamed}
    sig = "colmap:%s,renamed=%s" % (fmt, "+".join(renamed) or "none")
    ctx.count("colmap")
    if renamed:
        ctx.nontrivial(sig)
    p0, p1, f, r0, r1 = _scratch("c14plain." + fmt, "c14renamed." + fmt, "c14ci.fits", "c14cr0.fits", "c14cr1.fits")
    try:
        _write_table(_table(srcs, {}), p0, fmt)
        _write_table(_table(srcs, rename), p1, fmt)
        rs = np.random.RandomState(1477)
        scenes.write_image(f, hdr, rs.normal(0, 1, size=shape))
        try:
            plain = AeRes.load_sources(p0)
            got = AeRes.load_sources(p1, **kw)
            AeRes.make_residual(f, p0, r0)
            AeRes.make_residual(f, p1, r1, colmap=kw)
            a0 = np.array(fits.getdata(r0)) if os.path.exists(r0) else None
            a1 = np.array(fits.getdata(r1)) if os.path.exists(r1) else None
            masked = {}
            for mname, mkw in (("sigma=4", dict(sigma=4)), ("sigma=12", dict(sigma=12)), ("frac=0.5", dict(frac=0.5))):
                AeRes.make_residual(f, p0, r0, mask=True, **mkw)
                AeRes.make_residual(f, p1, r1, mask=True, colmap=kw, **mkw)
                masked[mname] = (np.isnan(np.array(fits.getdata(r0))), np.isnan(np.array(fits.getdata(r1))))
        except Exception as e:
            ctx.violation("load_sources/make_residual raised %r with %r (%s)" % (e, kw, sig), "raise|" + sig)
            ctx.outcome("colmap:raise")
            return
    finally:
        _cleanup([p0, p1, f, r0, r1])
    ok = _same_sources(ctx, plain, srcs, sig, "default column names")
    ok = _same_sources(ctx, got, srcs, sig, "renamed columns %r" % kw) and ok
    if a0 is None or a1 is None:
        ctx.violation("make_residual wrote no residual file (default names: %s, colmap: %s) (%s)" % (a0 is not None, a1 is not None, sig),
                      "colmap_nofile|" + sig)
        ok = False
    elif not np.array_equal(a0, a1):
        ctx.violation("make_residual(colmap=%r) differs from the run on default column names by %.4g (%s)" % (
            kw, float(np.nanmax(np.abs(a0.astype(float) - a1))), sig), "colmap_residual|" + sig)
        ok = False
    for mname, (b0, b1) in masked.items():
        if not b0.any():
            ctx.violation("mask mode (%s) on default column names blanks nothing in the colmap scene (%s)" % (mname, sig), "colmap_mask_empty|" + sig)
            ok = False
        if not np.array_equal(b0, b1):
            ctx.violation("mask mode (%s): make_residual(colmap=%r) blanks %d pixels, the run on default column names %d (%s)" % (
                mname, kw, int(b1.sum()), int(b0.sum()), sig), "colmap_mask|" + sig)
            ok = False
    ctx.outcome("colmap:same" if ok else "colmap:differs")


def ev_colmap_prefix(case, ctx):
    """columns renamed by the package's own writer (save_catalog(prefix=...))"""
    from AegeanTools import AeRes, catalogs
    hdr, wh, shape, srcs = _colmap_scene(ctx)
    fmt = case["fmt"]
    sig = "colmap_prefix:%s" % fmt
    ctx.count("colmap_prefix")
    ctx.nontrivial(sig)
    path, = _scratch("c14pre." + fmt)
    comp = path.replace("c14pre.", "c14pre_comp.")
    kw = {COLARG[c]: "src_" + c for c in COLS}
    try:
        catalogs.save_catalog(path, [component(s, j) for j, s in enumerate(srcs)], prefix="src")
        got = AeRes.load_sources(comp, **kw)
    except Exception as e:
        ctx.violation("save_catalog(prefix='src') -> load_sources(%r) raised %r (%s)" % (kw, e, sig), "raise|" + sig)
        return
    finally:
        _cleanup([path, comp])
    ctx.outcome("colmap_prefix:same" if _same_sources(ctx, got, srcs, sig, "prefixed columns") else "colmap_prefix:differs")


WIDE = [("SIN", "corner"), ("ZEA", "corner"), ("SIN", "centre"), ("TAN", "corner"), ("ZEA", "far_off")]


def ev_wide(case, ctx):
    """wide fields (17 x 22 degrees): catalogues whose sources have bit-identical (a, b, pa) - point-source catalogues - at
    places where the local pixel scale and orientation differ: additive over subsets and independent of the row order"""
    from AegeanTools import AeRes
    from AegeanTools.wcs_helpers import WCSHelper
    proj, where = WIDE[case["k"]]
    shape = (170, 220)
    cd = 0.1
    crpix = dict(corner=(4.0, 6.0), centre=None, far_off=(-150.0, 300.0))[where]
    hdr = wz.make_header(proj, (75.0 + core.seed_shift(ctx.seed, 31, 10.0), -20.0), cd, shape, beam=(4 * cd, 3 * cd, 0.0), **(dict(crpix=crpix) if crpix else {}))
    wh = WCSHelper.from_header(wz.to_fits_header(hdr))
    a, b, pa = case["abp"]
    pos = [(20.3, 25.1), (150.2, 30.7), (80.5, 110.2), (25.9, 200.4), (155.6, 205.3), (90.0, 180.0)]
    srcs = []
    for j, (r, c) in enumerate(pos):
        ra, dec = wz.pix2sky(hdr, c + 1.0, r + 1.0)
        srcs.append(dict(ra=float(ra), dec=float(dec), peak=[1.0, 0.7, -0.5, 1.3, 0.9, 0.4][j], a=a * cd, b=b * cd, pa=pa, pos="wide%d" % j))
    comps = [component(s, j) for j, s in enumerate(srcs)]
    sig = "wide:%s,crpix=%s,abp=%r" % (proj, where, tuple(case["abp"]))
    ctx.count("wide")
    ctx.nontrivial(sig)
    try:
        full = np.asarray(AeRes.make_model(comps, shape, wh), dtype=np.float64)
        singles = [np.asarray(AeRes.make_model([c_], shape, wh), dtype=np.float64) for c_ in comps]
        rev = np.asarray(AeRes.make_model(comps[::-1], shape, wh), dtype=np.float64)
        rot = np.asarray(AeRes.make_model(comps[2:] + comps[:2], shape, wh), dtype=np.float64)
    except Exception as e:
        ctx.violation("make_model raised %r (%s)" % (e, sig), "raise|" + sig)
        return
    tot = sum(abs(s["peak"]) for s in srcs)
    ssum = np.sum(singles, axis=0)
    err = float(np.max(np.abs(full - ssum))) / tot
    ctx.note_max("wide_additivity_err", err)
    ok = True
    if not err <= 1e-9:
        w = np.unravel_index(int(np.argmax(np.abs(full - ssum))), full.shape)
        ctx.violation("wide field: model of %d sources with identical (a, b, pa) differs from the sum of the single-source models by %.4g of the peaks at pixel %r (%s)" % (
            len(srcs), err, tuple(int(x) for x in w), sig), "wide_additive|" + sig)
        ok = False
    for nm, other in (("reversed", rev), ("rotated", rot)):
        e2 = float(np.max(np.abs(full - other))) / tot
        if not e2 <= 1e-9:
            ctx.violation("wide field: model depends on the row order (%s catalogue differs by %.4g of the peaks) (%s)" % (nm, e2, sig), "wide_order|" + sig)
            ok = False
    # every single-source model is non-trivial and sits where the source is
    for j, (m, s_) in enumerate(zip(singles, srcs)):
        w = np.unravel_index(int(np.argmax(np.abs(m))), m.shape)
        if not (abs(w[0] - pos[j][0]) <= 1.0 and abs(w[1] - pos[j][1]) <= 1.0 and abs(abs(m[w]) - abs(s_["peak"])) <= 0.1 * abs(s_["peak"])):
            ctx.violation("wide field: single-source model %d peaks at %r with %.4g, source at %r with %.4g (%s)" % (j, tuple(int(x) for x in w), m[w], pos[j], s_["peak"], sig),
                          "wide_single|" + sig)
            ok = False
    ctx.outcome("wide:%s" % ("ok" if ok else "bad"))


def ev_sip(case, ctx):
    """a header with SIP distortion polynomials: each source's model must sit where astropy's full (distortion-aware) transform
    puts its catalogued sky position - centroid of the single-source model within 0.02 pixel"""
    from astropy.wcs import WCS
    from AegeanTools import AeRes
    from AegeanTools.wcs_helpers import WCSHelper
    shape = (120, 140)
    cd = CD
    k = case["strength"]
    hdr = wz.make_header("TAN", (150.0 + core.seed_shift(ctx.seed, 33, 10.0), -35.0), cd, shape, beam=(BEAM_PX[0] * cd, BEAM_PX[1] * cd, BEAM_PX[2]))
    hdr["CTYPE1"], hdr["CTYPE2"] = "RA---TAN-SIP", "DEC--TAN-SIP"
    hdr.update(A_ORDER=2, B_ORDER=2, A_2_0=2e-5 * k, A_0_2=-1e-5 * k, A_1_1=1.5e-5 * k, B_2_0=-1.2e-5 * k, B_0_2=2.5e-5 * k, B_1_1=-0.8e-5 * k)
    fh = wz.to_fits_header(hdr)
    w = WCS(fh, naxis=2)
    wh = WCSHelper.from_header(fh)
    sig0 = "sip:strength=%g" % k
    for j, (r, c) in enumerate([(20.3, 25.1), (100.2, 30.7), (60.5, 70.2), (25.9, 120.4), (105.6, 125.3), (60.0, 8.0)]):
        ctx.count("sip")
        sig = "%s,pix=(%g,%g)" % (sig0, r, c)
        ctx.nontrivial(sig)
        ra, dec = w.all_pix2world([[c, r]], 0)[0]
        src = dict(ra=float(ra), dec=float(dec), peak=1.0, a=5.0 * cd, b=4.0 * cd, pa=30.0, pos="sip%d" % j)
        try:
            m = np.asarray(AeRes.make_model([component(src, j)], shape, wh), dtype=np.float64)
        except Exception as e:
            ctx.violation("make_model raised %r on a SIP header (%s)" % (e, sig), "raise|" + sig)
            continue
        tot = m.sum()
        if not tot > 0:
            ctx.violation("source at pixel (%g, %g) of a SIP image is absent from the model (%s)" % (r, c, sig), "sip_dropped|" + sig)
            continue
        ii, jj = np.mgrid[0:shape[0], 0:shape[1]]
        cr, cc = float((m * ii).sum() / tot), float((m * jj).sum() / tot)
        err = float(np.hypot(cr - r, cc - c))
        ctx.note_max("sip_centroid_err_px", err)
        if not err <= 0.02:
            ctx.violation("SIP header: the model of a source catalogued at the sky position of pixel (row %.2f, col %.2f) is centred on (%.3f, %.3f): %.3f pixel off (%s)" % (
                r, c, cr, cc, err, sig), "sip_position|" + sig)
    ctx.outcome("sip")


CLI_FLAG = dict(ra="--racol", dec="--deccol", peak_flux="--peakcol", a="--acol", b="--bcol", pa="--pacol")
CLI_MODES = [["sub"], ["add"], ["mask"], ["mask", "sigma", 10.0], ["mask", "sigma", 25.0], ["mask", "frac", 0.5], ["mask", "frac", 0.9],
             ["frac_only", 0.5], ["add", "mask", "frac", 0.5]]
CLI_RENAMES = [0, 63, 1, 2, 4, 8, 16, 32, 0b101010]


def ev_cli(case, ctx):
    """the AeRes command line produces what the API produces for the same options (the API is judged by the other clauses)"""
    from AegeanTools import AeRes
    from AegeanTools.CLI import AeRes as cli
    hdr, wh, shape, srcs = _colmap_scene(ctx)
    fmt, mode = case["fmt"], case["mode"]
    renamed = [c for i, c in enumerate(COLS) if case["mask"] >> i & 1]
    rename = {c: ALTNAME[c] for c in renamed}
    kw = {COLARG[c]: ALTNAME[c] for c in renamed}
    sig = "cli:%s,%s,renamed=%s,model=%d" % (fmt, "/".join(str(x) for x in mode), "+".join(renamed) or "none", case["model"])
    ctx.count("cli")
    ctx.nontrivial(sig)
    cat, f, r0, r1, m0, m1 = _scratch("c14cli." + fmt, "c14cli_i.fits", "c14cli_r0.fits", "c14cli_r1.fits", "c14cli_m0.fits", "c14cli_m1.fits")
    argv = ["-c", cat, "-f", f, "-r", r1]
    api = dict(add=False, mask=False, frac=None, sigma=4)
    if "add" in mode:
        argv.append("--add")
        api["add"] = True
    if "mask" in mode:
        argv.append("--mask")
        api["mask"] = True
    if "sigma" in mode:
        argv += ["--sigma", repr(mode[mode.index("sigma") + 1])]
        api["sigma"] = mode[mode.index("sigma") + 1]
    if "frac" in mode:
        argv += ["--frac", repr(mode[mode.index("frac") + 1])]
        api["frac"] = mode[mode.index("frac") + 1]
    if mode[0] == "frac_only":      # --frac without --mask: nothing is masked
        argv += ["--frac", repr(mode[1])]
        api["frac"] = mode[1]
    for c in renamed:
        argv += [CLI_FLAG[c], ALTNAME[c]]
    if case["model"]:
        argv += ["-m", m1]
    try:
        t = _table(srcs, rename)
        t["local_rms"] = [0.02 * abs(s["peak"]) for s in srcs]
        _write_table(t, cat, fmt)
        rs = np.random.RandomState(1478)
        scenes.write_image(f, hdr, rs.normal(0, 1, size=shape))
        try:
            AeRes.make_residual(f, cat, r0, mfile=m0 if case["model"] else None, colmap=kw, **api)
            rc = cli.main(argv)
        except BaseException as e:
            ctx.violation("AeRes %s raised %r (%s)" % (" ".join(argv[6:]), e, sig), "cli_raise|" + sig)
            ctx.outcome("cli:raise")
            return
        outs = [np.array(fits.getdata(p), dtype=np.float64) if os.path.exists(p) else None for p in (r0, r1, m0, m1)]
        data = np.array(fits.getdata(f), dtype=np.float64)
    finally:
        _cleanup([cat, f, r0, r1, m0, m1])
    a0, a1, mm0, mm1 = outs
    ok = True
    if rc != 0 or a0 is None or a1 is None:
        ctx.violation("AeRes %s returned %r, residual written: %s (API wrote one: %s) (%s)" % (
            " ".join(argv[6:]), rc, a1 is not None, a0 is not None, sig), "cli_nofile|" + sig)
        ctx.outcome("cli:nofile")
        return
    if not np.array_equal(a0, a1, equal_nan=True):
        ok = False
        ctx.violation("AeRes %s: residual differs from make_residual(%r, colmap=%r): %d pixels blank vs %d, largest difference %.4g (%s)" % (
            " ".join(argv[6:]), api, kw, int(np.isnan(a1).sum()), int(np.isnan(a0).sum()),
            float(np.nanmax(np.abs(np.nan_to_num(a0) - np.nan_to_num(a1)))), sig), "cli_residual|" + sig)
    if case["model"] and (mm0 is None or mm1 is None or not np.array_equal(mm0, mm1, equal_nan=True)):
        ok = False
        ctx.violation("AeRes %s: model file missing or different from the API's (%s)" % (" ".join(argv[6:]), sig), "cli_model|" + sig)
    # independent anchor: without --mask the residual is input -/+ the oracle's model; with --mask some pixel is blank
    # exactly when a threshold can be reached
    if not api["mask"]:
        got = (a1 - data) if api["add"] else (data - a1)
        if not compare_model(ctx, got, hdr, shape, srcs, "AeRes %s" % " ".join(argv[6:]), sig, "cli_model_err"):
            ok = False
        if np.isnan(a1).any():
            ok = False
            ctx.violation("AeRes %s blanked %d pixels without --mask (%s)" % (" ".join(argv[6:]), int(np.isnan(a1).sum()), sig), "cli_blank|" + sig)
    ctx.outcome("cli:%s:%s" % (mode[0], "same" if ok else "differs"))


CLAUSES = dict(single=ev_single, cat=ev_cat, loop=ev_loop, addsub=ev_addsub, mask=ev_mask, colmap=ev_colmap,
               colmap_prefix=ev_colmap_prefix, cli=ev_cli, wide=ev_wide, sip=ev_sip)


def evaluate(clause, case, ctx):
    CLAUSES[clause](case, ctx)
