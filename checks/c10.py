"""C10 Masking keeps or removes exactly the pixels/rows whose position is in the region (E1, bounded-exhaustive)."""
import itertools
import os

import numpy as np
from astropy.io import fits
from astropy.table import Table
from astropy.wcs import WCS

from AegeanTools import MIMAS
from AegeanTools.regions import Region
from mc import core
from mc.oracles import hpset
from mc.oracles import wcs_zenithal as wz

PROPERTY = "C10"
LEVEL = "exploration"
SHARDS = 16
RULE = ("full product image shape x projection x CRPIX placement x pixel scale x region kind x depth x negate x "
        "dimensionality (mask_plane 2-D; mask_file 2-D/3-D/4-D); tables: ALL 2^5 subsets of five archetype rows "
        "(incl. the empty table) x negate x column names x {mask_table, mask_catalog csv/fits}; non-trivial = image "
        "with at least one pixel inside and one outside the region / table with a row; distinct = distinct case")
ASSUMPTIONS = ["pixel centre sky positions from the independent zenithal WCS model (0-based centre (i,j) = FITS pixel "
               "(j+1, i+1)); membership from healpy ang2pix into the region's own deepest-level pixel set",
               "pixels whose centre lies within 1e-6 pixel of a HEALPix cell boundary (membership changes under a "
               "1e-6 pixel shift) are excluded from the comparison and counted",
               "rotation-free CDELT headers"]

SHAPES = [(7, 5), (16, 16), (9, 23)]
PROJ = ["SIN", "TAN", "ZEA"]


def axes(tier, seed):
    return dict(shapes=SHAPES if tier == "quick" else SHAPES_T, projections=PROJ if tier == "quick" else PROJ_T, crpix=["centre", "off-image"], scale_deg=[0.2, 1.0],
                regions=["circle", "polygon", "multilevel", "spread (three far-apart parts)"], depth={"1.0": [6, 9], "0.2": [6, 8, 10]}, negate=[False, True],
                dims=["plane", "file2d", "file3d", "file4d", "file2d float64", "file3d float64"],
                table_rows=["inside", "outside", "edge", "undef_ra", "undef_dec"], columns=[("ra", "dec"), ("RAJ2000", "DEJ2000")])


SHAPES_T = SHAPES + [(31, 12), (5, 40), (24, 24)]
PROJ_T = PROJ + ["ARC", "STG"]


def cases(tier, seed):
    shapes = SHAPES if tier == "quick" else SHAPES_T
    projs = PROJ if tier == "quick" else PROJ_T
    for sh, pj, cp, sc, rk in itertools.product(range(len(shapes)), projs, ["centre", "off"], [0.2, 1.0], ["circle", "polygon", "multilevel", "spread"]):
        # depth 6 at 0.2 deg pixels: about twenty image pixels share one cell of the region (coarser than the pixel grid)
        for depth in (([6, 9] if sc == 1.0 else [6, 8, 10]) if tier == "quick" else ([5, 6, 7, 9] if sc == 1.0 else [5, 6, 7, 8, 10, 11])):
            yield "image", dict(shape=sh, proj=pj, crpix=cp, scale=sc, region=rk, depth=depth)
            if cp == "centre" and rk in ("circle", "spread") and depth in (8, 9):
                # the reference point is a celestial pole and sits exactly on a pixel centre inside the region
                for pole in (90.0, -90.0):
                    yield "image", dict(shape=sh, proj=pj, crpix="pole", scale=sc, region=rk, depth=depth, pole=pole)
            if pj == "SIN" and cp == "centre":
                # the same field described by a header with a NEGATIVE reference longitude (CRVAL1 = -2 = 358 deg)
                yield "image", dict(shape=sh, proj=pj, crpix=cp, scale=sc, region=rk, depth=depth, ra0=-2.0)
    for m in range(32):
        yield "table", dict(rows=m)
        if m:
            yield "table", dict(rows=m, dup=2)
            yield "table", dict(rows=m, dup=3)
    for k in range(4):
        yield "cli", dict(k=k)


def make_region(kind, depth, hdr, shape, seed):
    """regions whose edge crosses the image: placed relative to the sky position of a pixel inside the image"""
    rows, cols = shape
    cd = abs(hdr["CDELT2"])
    ra0, dec0 = wz.pix2sky(hdr, cols * 0.35 + core.seed_shift(seed, 11, 0.5), rows * 0.6)
    ra0, dec0 = float(ra0), float(dec0)
    reg = Region(maxdepth=depth)
    rad = cd * min(rows, cols) * 0.45
    if kind == "circle":
        reg.add_circles(np.radians(ra0), np.radians(dec0), np.radians(rad))
    elif kind == "spread":
        # a footprint in several far-apart parts: the region's pixel numbers are spread over the whole sphere
        reg.add_circles(np.radians(ra0), np.radians(dec0), np.radians(rad))
        reg.add_circles(np.radians((ra0 + 180.0) % 360), np.radians(-dec0), np.radians(rad))
        reg.add_circles(np.radians((ra0 + 90.0) % 360), np.radians(60.0), np.radians(rad * 0.5))
    elif kind == "polygon":
        from mc.oracles import sphere
        vra, vdec = sphere.destination(ra0, dec0, rad * 1.3, np.array([20.0, 110.0, 200.0, 290.0]))
        reg.add_poly(list(zip(np.radians(np.asarray(vra, dtype=float)), np.radians(np.asarray(vdec, dtype=float)))))
    else:
        reg.add_circles(np.radians(ra0), np.radians(dec0), np.radians(rad * 0.7), depth=max(depth - 2, 1))
        r2 = Region(maxdepth=depth)
        ra1, dec1 = wz.pix2sky(hdr, cols * 0.8, rows * 0.2)
        r2.add_circles(np.radians(float(ra1)), np.radians(float(dec1)), np.radians(rad * 0.5))
        reg.union(r2)
    return reg


def oracle_inside(hdr, shape, reg):
    """(inside, ambiguous) boolean arrays for the pixel centres"""
    rows, cols = shape
    ii, jj = np.mgrid[0:rows, 0:cols]
    import copy
    model = np.fromiter((int(p) for p in copy.deepcopy(reg).get_demoted()), dtype=np.int64)
    d = reg.maxdepth

    def member(di, dj):
        ra, dec = wz.pix2sky(hdr, jj + 1.0 + dj, ii + 1.0 + di)
        ok_ = np.isfinite(ra) & np.isfinite(dec)      # pixels without a sky position are never inside
        out = np.zeros(ra.shape, dtype=bool)
        out[ok_] = np.isin(hpset.pix_of(d, np.radians(ra[ok_]), np.radians(dec[ok_])), model)
        return out
    base = member(0, 0)
    amb = np.zeros(shape, dtype=bool)
    for di, dj in [(1e-6, 0), (-1e-6, 0), (0, 1e-6), (0, -1e-6)]:
        amb |= member(di, dj) != base
    return base, amb


def ev_image(case, ctx):
    shape = (SHAPES if ctx.tier == "quick" else SHAPES_T)[case["shape"]]
    rows, cols = shape
    sc = case["scale"]
    crpix = None if case["crpix"] == "centre" else (cols + 30.5, -12.25)
    if case["crpix"] == "pole":
        crpix = (float(int(cols * 0.35) + 1), float(int(rows * 0.6) + 1))
    hdr = wz.make_header(case["proj"], (case.get("ra0", 150.0) + core.seed_shift(ctx.seed, 10, 30 if "ra0" not in case else 1.0), case.get("pole", -35.0)), sc, shape, crpix=crpix)
    if "pole" in case:
        hdr["LONPOLE"] = 180.0
    fhdr = wz.to_fits_header(hdr)
    wcs = WCS(fhdr, naxis=2)
    probe = wz.pix2sky(hdr, np.array([cols * 0.35, cols * 0.8, cols * 0.35 + 1]), np.array([rows * 0.6, rows * 0.2, rows * 0.6]))
    if not np.all(np.isfinite(probe)):
        # the reference pixels used to place the region have no sky position (image beyond the projection's horizon)
        ctx.count("skipped_no_sky_position")
        return
    reg = make_region(case["region"], case["depth"], hdr, shape, ctx.seed)
    inside, amb = oracle_inside(hdr, shape, reg)
    ok = ~amb
    tag = "%dx%d,%s,crpix=%s,scale=%g,%s,depth=%d" % (rows, cols, case["proj"], case["crpix"], sc, case["region"], case["depth"])
    if "ra0" in case:
        tag += ",crval1=%g" % case["ra0"]
    if "pole" in case:
        tag += ",crval2=%g" % case["pole"]
    ctx.count("ambiguous_pixels_skipped", int(np.sum(amb)))
    if np.any(inside & ok) and np.any(~inside & ok):
        ctx.nontrivial(tag)
    ctx.outcome("in=%d,out=%d" % (min(1, int(np.sum(inside))), min(1, int(np.sum(~inside)))))
    base = (np.arange(rows * cols, dtype=np.float32).reshape(shape) * 0.5 + 1.0)
    # blank pixels that are already in the input (inside and outside the region, different in every plane of a cube) must
    # stay what they are and must not spread to other planes
    pre = [np.zeros(shape, dtype=bool) for _ in range(3)]
    idx_in, idx_out = np.argwhere(inside & ok), np.argwhere(~inside & ok)
    for k in range(3):
        for idx in (idx_in, idx_out):
            if len(idx) > k + 1:
                pre[k][tuple(idx[(len(idx) * (k + 1)) // 4])] = True
                pre[k][tuple(idx[(k * 7 + 1) % len(idx)])] = True
    d = os.environ["VERIF_SCRATCH"]
    fin, fout, fmim = [os.path.join(d, n) for n in ("m_in.fits", "m_out.fits", "m.mim")]
    reg.save(fmim)
    results = {}
    for negate in (False, True):
        exp_blank = inside if negate else ~inside
        for dims in ("plane", "file2d", "file3d", "file4d", "file2d_f64", "file3d_f64"):
            ctx.count("mask_call")
            sig = "%s,negate=%s,%s" % (tag, negate, dims)
            try:
                def with_pre(k):
                    a_ = base + 1000 * k
                    if dims.endswith("_f64"):       # double-precision image whose values do not fit single precision
                        a_ = a_.astype(np.float64) + np.pi * 1e-7
                    a_[pre[k]] = np.nan
                    return a_
                if dims == "plane":
                    import copy
                    planes = [MIMAS.mask_plane(with_pre(0), wcs, copy.deepcopy(reg), negate=negate)]
                    ref_planes = [with_pre(0)]
                else:
                    if dims.startswith("file2d"):
                        data = with_pre(0)
                    elif dims.startswith("file3d"):
                        data = np.stack([with_pre(k) for k in range(3)])
                    else:
                        data = np.stack([with_pre(k) for k in range(2)])[None]
                    fits.PrimaryHDU(data=data, header=fhdr).writeto(fin, overwrite=True)
                    MIMAS.mask_file(fmim, fin, fout, negate=negate)
                    out = fits.getdata(fout)
                    out = np.squeeze(out)
                    refd = np.squeeze(data)
                    planes = [out] if out.ndim == 2 else list(out)
                    ref_planes = [refd] if refd.ndim == 2 else list(refd)
                    if len(planes) != len(ref_planes):
                        ctx.violation("output has %d planes, input %d (%s)" % (len(planes), len(ref_planes), sig), "planes|" + sig)
                        continue
            except Exception as e:
                ctx.violation("masking raised %r (%s)" % (e, sig), "raise|" + sig)
                continue
            for k, (pl, ref) in enumerate(zip(planes, ref_planes)):
                blank = ~np.isfinite(pl)
                if pl.shape != shape:
                    ctx.violation("plane shape %r (%s)" % (pl.shape, sig), "shape|" + sig)
                    break
                wrong = (blank != (exp_blank | ~np.isfinite(ref))) & ok
                if np.any(wrong):
                    w = np.argwhere(wrong)[0]
                    ctx.violation("%d of %d pixels wrongly %s, first (row %d, col %d) plane %d (%s)" % (
                        int(np.sum(wrong)), int(np.sum(ok)), "blanked" if blank[tuple(w)] else "kept", w[0], w[1], k, sig),
                        "pixels|" + sig)
                    break
                keep = ~blank
                if not np.array_equal(pl[keep], ref[keep], equal_nan=True):
                    ctx.violation("unmasked pixel values changed (%s)" % sig, "values|" + sig)
                    break
            results[(negate, dims)] = [~np.isfinite(pl) for pl in planes]
    for dims in ("plane", "file2d", "file3d", "file4d", "file2d_f64", "file3d_f64"):
        if (False, dims) in results and (True, dims) in results:
            a, b = results[(False, dims)][0], results[(True, dims)][0]
            if a.shape == b.shape and np.any((a == b) & ok & ~pre[0]):
                ctx.violation("negate is not the complement (%s, %s)" % (tag, dims), "complement|%s,%s" % (tag, dims))
    for f in (fin, fout, fmim):
        if os.path.exists(f):
            os.remove(f)


ROWS = ["inside", "outside", "edge", "undef_ra", "undef_dec"]


def ev_table(case, ctx):
    m = case["rows"]
    depth = 8
    reg = Region(maxdepth=depth)
    ra0, dec0, rad = 40.0 + core.seed_shift(ctx.seed, 12, 5), -20.0, 3.0
    reg.add_circles(np.radians(ra0), np.radians(dec0), np.radians(rad))
    # a second, far-away part: the region's pixel numbers are spread over the sphere (a survey footprint made of several fields)
    reg.add_circles(np.radians((ra0 + 170.0) % 360), np.radians(55.0), np.radians(2.0))
    coords = dict(inside=(ra0, dec0), outside=(ra0 + 20, dec0 + 10), edge=(ra0, dec0 + rad - 0.5),
                  undef_ra=(np.nan, dec0), undef_dec=(ra0, np.nan))
    expect_inside = dict(inside=True, outside=False, edge=True, undef_ra=False, undef_dec=False)
    names = [ROWS[k] for k in range(5) if (m >> k) & 1]
    if case.get("dup"):
        # duplicate rows (several sources at one position / in one cell of the region): each row is judged on its own
        names = [n for n in names for _ in range(case["dup"])]
    d = os.environ["VERIF_SCRATCH"]
    fmim = os.path.join(d, "t.mim")
    reg.save(fmim)
    # a row with ONE undefined coordinate must not be treated as if that coordinate were 0: regions that contain
    # (RA = 0, the row's Dec), (the row's RA, Dec = 0) and both poles
    for rname, (rra, rdec, rrad) in dict(ra_zero=(0.0, dec0, 4.0), dec_zero=(ra0, 0.0, 4.0), north_pole=(10.0, 90.0, 4.0),
                                         south_pole=(10.0, -90.0, 4.0), origin=(0.0, 0.0, 4.0)).items():
        r2 = Region(maxdepth=depth)
        r2.add_circles(np.radians(rra), np.radians(rdec), np.radians(rrad))
        for negate, form in itertools.product((False, True), ("nan", "masked", "masked_via_csv")):
            t = Table()
            if form == "nan":
                t["ra"] = np.array([np.nan, ra0, np.nan, ra0 + 20])
                t["dec"] = np.array([dec0, np.nan, np.nan, dec0 + 10])
            else:
                # undefined = MASKED cells (what a blank cell of an ascii catalogue becomes); the value under the mask is 0
                from astropy.table import MaskedColumn
                t["ra"] = MaskedColumn(data=[0.0, ra0, 0.0, ra0 + 20], mask=[True, False, True, False])
                t["dec"] = MaskedColumn(data=[dec0, 0.0, 0.0, dec0 + 10], mask=[False, True, True, False])
            t["tag"] = np.array(["undef_ra", "undef_dec", "undef_both", "defined_outside"], dtype="U16")
            if form == "masked_via_csv":
                fcsv = os.path.join(d, "undef.csv")
                t.write(fcsv, format="ascii.csv", overwrite=True)
                t = Table.read(fcsv, format="ascii.csv")
                os.remove(fcsv)
            ctx.count("mask_table_undefined")
            sig2 = "undefined:%s,negate=%s,%s" % (rname, negate, form)
            ctx.nontrivial(sig2)
            import copy as _copy
            try:
                out = MIMAS.mask_table(_copy.deepcopy(r2), t.copy(), negate=negate)
                got = [str(x) for x in out["tag"]]
            except Exception as e:
                ctx.violation("mask_table raised %r (%s)" % (e, sig2), "table_raise|" + sig2)
                continue
            exp = [] if negate else ["undef_ra", "undef_dec", "undef_both", "defined_outside"]
            if got != exp:
                ctx.violation("rows with an undefined coordinate were treated as inside a region around %s: kept %r, expected %r (%s)" % (
                    rname, got, exp, sig2), "table_undefined|" + sig2)
    # history: the same Region object masks a table, is extended (union with and without renormalisation, add_circles) and masks
    # the table again - the second answer is the one of the extended region
    if names:
        import copy as _copy3
        for how in ("union", "union_norenorm", "add_circles"):
            r_ = _copy3.deepcopy(reg)
            t = Table()
            t["ra"] = np.array([coords[n][0] for n in names], dtype=float)
            t["dec"] = np.array([coords[n][1] for n in names], dtype=float)
            t["tag"] = np.array(names, dtype="U12")
            ctx.count("mask_table_history")
            sigh = "history:%s,rows=%s" % (how, "+".join(names))
            ctx.nontrivial(sigh)
            try:
                first = [str(x) for x in MIMAS.mask_table(r_, t.copy())["tag"]]
                ora, odec = coords["outside"]
                if how == "add_circles":
                    r_.add_circles(np.radians(ora), np.radians(odec), np.radians(1.5))
                else:
                    other = Region(maxdepth=depth)
                    other.add_circles(np.radians(ora), np.radians(odec), np.radians(1.5))
                    r_.union(other, renorm=(how == "union"))
                second = [str(x) for x in MIMAS.mask_table(r_, t.copy())["tag"]]
            except Exception as e:
                ctx.violation("mask_table raised %r (%s)" % (e, sigh), "table_raise|" + sigh)
                continue
            exp1 = [n for n in names if not expect_inside[n]]
            exp2 = [n for n in exp1 if n != "outside"]
            if first != exp1 or second != exp2:
                ctx.violation("a region masks a table, is extended by %s around the 'outside' row and masks the table again: kept %r then %r, expected %r then %r (%s)" % (
                    how, first, second, exp1, exp2, sigh), "table_history|" + sigh)
    # rows exactly AT a celestial pole, region = polar cap: such a row is an ordinary position
    for pole, negate in itertools.product((90.0, -90.0), (False, True)):
        cap = Region(maxdepth=depth)
        cap.add_circles(np.radians(200.0), np.radians(pole), np.radians(2.0))
        t = Table()
        t["ra"] = np.array([0.0, 133.0, 359.5, ra0])
        t["dec"] = np.array([pole, pole, pole, -pole * 0.5])
        t["tag"] = np.array(["pole_ra0", "pole_ra133", "pole_ra359", "far"], dtype="U12")
        ctx.count("mask_table_pole")
        sigp = "pole_rows:dec=%g,negate=%s" % (pole, negate)
        ctx.nontrivial(sigp)
        import copy as _copy2
        try:
            got = [str(x) for x in MIMAS.mask_table(_copy2.deepcopy(cap), t.copy(), negate=negate)["tag"]]
        except Exception as e:
            ctx.violation("mask_table raised %r (%s)" % (e, sigp), "table_raise|" + sigp)
            continue
        exp = ["pole_ra0", "pole_ra133", "pole_ra359"] if negate else ["far"]
        if got != exp:
            ctx.violation("rows exactly at dec = %g with a polar-cap region: kept %r, expected %r (%s)" % (pole, got, exp, sigp), "table_pole|" + sigp)
    for (rac, decc), negate, distract in itertools.product([("ra", "dec"), ("RAJ2000", "DEJ2000")], [False, True], [False, True]):
        t = Table()
        t[rac] = np.array([coords[n][0] for n in names], dtype=float)
        t[decc] = np.array([coords[n][1] for n in names], dtype=float)
        if distract:
            # other coordinate-like columns (a cross-matched table): same names in another case, suffixed names; they hold
            # positions with the OPPOSITE membership and must be ignored
            opp_ra = np.array([(ra0 + 20 if expect_inside[n] else ra0) for n in names], dtype=float)
            opp_dec = np.array([(dec0 + 10 if expect_inside[n] else dec0) for n in names], dtype=float)
            t[rac.swapcase()] = opp_ra
            t[decc.swapcase()] = opp_dec
            t[rac + "_2"] = opp_ra
            t[decc + "_2"] = opp_dec
        t["tag"] = np.array(names, dtype="U12") if names else np.array([], dtype="U12")
        t["val"] = np.arange(len(names), dtype=float) * 1.5
        keep_exp = [n for n in names if (expect_inside[n] if negate else not expect_inside[n])]
        sig = "rows=%s,negate=%s,cols=%s%s" % ("+".join(names) or "none", negate, rac, ",distractors" if distract else "")
        ctx.count("mask_table")
        if names:
            ctx.nontrivial(sig)
        import copy
        try:
            out = MIMAS.mask_table(copy.deepcopy(reg), t.copy(), negate=negate, racol=rac, deccol=decc)
            got = [str(x) for x in out["tag"]]
            vals = [float(x) for x in out["val"]]
        except Exception as e:
            ctx.violation("mask_table raised %r (%s)" % (e, sig), "table_raise|" + sig)
            continue
        ctx.outcome("table_kept=%d" % len(got))
        if got != keep_exp:
            ctx.violation("mask_table kept %r, expected %r (%s)" % (got, keep_exp, sig), "table_rows|" + sig)
        elif vals != [1.5 * k_ for k_, n in enumerate(names) if n in keep_exp]:
            ctx.violation("mask_table changed another column (%s)" % sig, "table_cols|" + sig)
        # through files
        if rac == "ra" and names and not distract:
            for ext in ("csv", "fits"):
                fin = os.path.join(d, "cat_in." + ext)
                fout = os.path.join(d, "cat_out." + ext)
                for f in (fin, fout):
                    if os.path.exists(f):
                        os.remove(f)
                t.write(fin, overwrite=True)
                ctx.count("mask_catalog")
                try:
                    MIMAS.mask_catalog(fmim, fin, fout, negate=negate)
                    if os.path.exists(fout):
                        o = Table.read(fout)
                        got = [str(x).strip() for x in o["tag"]]
                    else:
                        got = None
                except Exception as e:
                    ctx.violation("mask_catalog(%s) raised %r (%s)" % (ext, e, sig), "catalog_raise|%s,%s" % (ext, sig))
                    continue
                if got is None and not keep_exp:
                    continue   # nothing to write
                if got != keep_exp:
                    ctx.violation("mask_catalog(%s) kept %r, expected %r (%s)" % (ext, got, keep_exp, sig),
                                  "catalog_rows|%s,%s" % (ext, sig))
    os.remove(fmim)


def ev_cli(case, ctx):
    """MIMAS command line: --maskimage / --maskcat with and without --negate, --colnames"""
    import logging
    from AegeanTools.CLI import MIMAS as cli
    k = case["k"]
    negate = bool(k % 2)
    d = os.environ["VERIF_SCRATCH"]
    shape = (12, 19)
    hdr = wz.make_header("SIN", (77.0, 21.0), 0.5, shape)
    reg = make_region("circle", 8, hdr, shape, ctx.seed)
    inside, amb = oracle_inside(hdr, shape, reg)
    fm, fi, fo = [os.path.join(d, n) for n in ("cli.mim", "cli_in.fits", "cli_out.fits")]
    reg.save(fm)
    base = np.arange(shape[0] * shape[1], dtype=np.float32).reshape(shape) + 1
    fits.PrimaryHDU(data=base, header=wz.to_fits_header(hdr)).writeto(fi, overwrite=True)
    logging.disable(logging.CRITICAL)
    sig = "cli:k=%d,negate=%s" % (k, negate)
    ctx.count("cli")
    ctx.nontrivial(sig)
    try:
        if k < 2:
            cli.main(["--maskimage", fm, fi, fo] + (["--negate"] if negate else []))
            out = fits.getdata(fo)
            exp_blank = inside if negate else ~inside
            wrong = ((~np.isfinite(out)) != exp_blank) & ~amb
            if np.any(wrong):
                ctx.violation("MIMAS --maskimage%s blanks the wrong pixels (%d of %d)" % (" --negate" if negate else "", int(wrong.sum()), wrong.size), "cli_image|" + sig)
        else:
            ra_in, dec_in = [float(v) for v in wz.pix2sky(hdr, shape[1] * 0.35 + 1, shape[0] * 0.6 + 1)]
            t = Table()
            t["RAJ"] = np.array([ra_in, ra_in + 40.0, np.nan])
            t["DEJ"] = np.array([dec_in, dec_in - 30.0, dec_in])
            t["tag"] = np.array(["inside", "outside", "undef"], dtype="U12")
            fc, fco = os.path.join(d, "cli_cat.csv"), os.path.join(d, "cli_cat_out.csv")
            t.write(fc, overwrite=True)
            if os.path.exists(fco):
                os.remove(fco)
            cli.main(["--maskcat", fm, fc, fco, "--colnames", "RAJ", "DEJ"] + (["--negate"] if negate else []))
            got = [str(x).strip() for x in Table.read(fco)["tag"]]
            exp = ["inside"] if negate else ["outside", "undef"]
            if got != exp:
                ctx.violation("MIMAS --maskcat%s kept %r, expected %r" % (" --negate" if negate else "", got, exp), "cli_cat|" + sig)
    except SystemExit:
        pass
    except Exception as e:
        ctx.violation("MIMAS CLI raised %r (%s)" % (e, sig), "cli_raise|" + sig)


def evaluate(clause, case, ctx):
    dict(image=ev_image, table=ev_table, cli=ev_cli)[clause](case, ctx)
