"""C19 Regrouping = eps-connected partition of the catalogue, independent of row order (E1, bounded-exhaustive)."""
import copy
import itertools
import logging
import os

import numpy as np

from AegeanTools import cluster
from AegeanTools.models import ComponentSource
from mc import core
from mc.oracles import sphere

PROPERTY = "C19"
LEVEL = "exploration"
SHARDS = 16
RULE = ("ALL non-empty subsets of <= 5 (thorough: <= 6) points of a 3x3 lattice (x spacings 0.6/1.4 eps, y spacings "
        "0.7/0.7 eps, rotated) x sky location {mid-latitude, across RA=0/360, around the north pole, around the south "
        "pole} x eps {1', 4', 2 deg} x flux assignment {all distinct, all equal, one position duplicated with a tied "
        "flux} (quick tier: all-equal on subsets of <= 4 points, duplicate on subsets of <= 3 points (4 rows); thorough: "
        "all-equal <= 6, duplicate on <= 5 points (6 rows)) x ALL permutations of the rows (<= 5! / 6!), on "
        "regroup_dbscan called with the callers' eps conversion "
        "sin(radians(eps/60)); the same subsets x ALL permutations on regroup(dist=norm_dist | sky_dist) (partition, "
        "labels, order independence only); the AeReg command line on the same catalogues written as csv tables; "
        "resize on ALL permutations of ALL non-empty subsets of six archetype rows x ratio {None, 1, 1.5, 3}; "
        "non-trivial = a catalogue with >= 2 rows; distinct = distinct (clause, subset, location, eps, flux/dist/ratio)")
ASSUMPTIONS = ["two sources are linked when their great-circle separation (longdouble atan2 formula on the float64 "
               "ra/dec handed to the code) is <= eps; groups = union-find closure of the links",
               "a guard asserts that no pair of catalogue positions lies within 1e-3 (relative) of eps, so the "
               "chord-vs-sine difference of the callers' eps conversion (about eps^2/8 relative, 1.5e-4 at 2 deg) "
               "cannot decide a link",
               "sources are identified by their uuid attribute; a group is the set of uuids of one returned list",
               "the group reported to a user is the island label: the partition induced by the island attribute must "
               "equal the partition of the returned lists",
               "for regroup (elliptical / sky_dist greedy variant) no connectivity oracle is applied",
               "resize: psf_a/psf_b are taken in the units of a/b (arcsec, as in Aegean tables); 'valid psf columns' = "
               "finite psf_a, psf_b > 0; identity is accepted within 1e-12 relative"]

# set to False to drop the ratio=None (no psfhelper) clause of resize, which is not literally in the property statement
CHECK_RATIO_NONE = True

logging.getLogger("Aegean").setLevel(logging.ERROR)

# ---------------------------------------------------------------------------------------------------------------
# the lattice
XOFF = [-1.0, -0.4, 1.0]      # spacings 0.6 / 1.4 : the first two columns are linked, the third is not
YOFF = [-0.7, 0.0, 0.7]       # spacings 0.7 / 0.7 : neighbours linked, ends (1.4) only through the middle (a chain)
LOCS = ["mid", "wrap", "npole", "spole"]
EPS_ARCMIN = [1.0, 4.0, 120.0]
FLUX9 = [3.2, 0.7, 5.1, -0.5, 4.4, 0.2, 2.8, 6.0, 1.1]          # distinct, one negative
PA9 = [0.0, 35.0, -60.0, 90.0, 12.5, -89.0, 150.0, 77.0, -20.0]
FLUXES = ["distinct", "equal", "dup"]
GUARD_REL = 1e-3
_LAT = {}


def _lattice(loc, eps_arcmin, seed):
    """float64 (ra, dec) of the nine lattice points + the matrix of great-circle separations (deg, longdouble)"""
    key = (loc, eps_arcmin, seed)
    if key in _LAT:
        return _LAT[key]
    eps = eps_arcmin / 60.0
    rot = np.radians(17.0 + core.seed_shift(seed, 1, 20.0))
    if loc == "mid":
        c = (150.0 + core.seed_shift(seed, 2, 5.0), -35.0)
    elif loc == "wrap":
        c = (360.0 - 0.13 * eps / np.cos(np.radians(20.0)), 20.0)
    else:
        d = min(0.3 * eps, 2.5 / 60.0)            # the lattice centre is within 3 arcmin of the pole and the pole
        c = (75.0, 90.0 - d) if loc == "npole" else (300.0, -90.0 + d)  # lies inside the lattice
    ras, decs = [], []
    for j in range(3):
        for i in range(3):
            x, y = XOFF[i] * eps, YOFF[j] * eps
            xr = x * np.cos(rot) - y * np.sin(rot)
            yr = x * np.sin(rot) + y * np.cos(rot)
            r = np.hypot(xr, yr)
            th = np.degrees(np.arctan2(xr, yr))
            a, b = sphere.destination(c[0], c[1], r, th)
            ras.append(float(a) % 360.0)
            decs.append(float(b))
    ra = np.array(ras, dtype=np.float64)
    dec = np.array(decs, dtype=np.float64)
    sep = sphere.dist(ra[:, None], dec[:, None], ra[None, :], dec[None, :])
    # guards (harness error, never a verdict): no separation near eps, distinct declinations, location as announced
    off = ~np.eye(9, dtype=bool)
    rel = np.abs(np.asarray(sep[off] / sphere.LD(eps), dtype=float) - 1.0)
    assert rel.min() > GUARD_REL, ("lattice pair within %g of eps" % GUARD_REL, key, rel.min())
    gaps = np.diff(np.sort(dec))
    assert gaps.min() > 1e-3 * eps, ("declinations not distinct", key, gaps.min())
    if loc == "wrap":
        assert (ra < 10).any() and (ra > 350).any(), key
    if loc in ("npole", "spole"):
        assert np.max(np.abs(np.abs(c[1]) - 90.0)) <= 3.0 / 60.0
        assert (np.max(ra) - np.min(ra)) > 180.0, key      # the points surround the pole
    _LAT[key] = (ra, dec, sep)
    return _LAT[key]


def _bits(mask, n=9):
    return [i for i in range(n) if (mask >> i) & 1]


def _masks(n, npts=9):
    return [sum(1 << i for i in comb) for comb in itertools.combinations(range(npts), n)]


def _uuid(k):
    return "00000000-0000-4000-8000-%012d" % k


def _mk_source(k, ra, dec, flux, size, pa):
    """a ComponentSource with every field filled with a finite, distinctive value"""
    s = ComponentSource()
    s.island = 900 + k
    s.source = 40 + k
    s.background = 0.001 * (k + 1)
    s.local_rms = 0.01 * (k + 1)
    s.ra_str = "ra%02d" % k
    s.dec_str = "dec%02d" % k
    s.ra = float(ra)
    s.err_ra = 1e-5 * (k + 1)
    s.dec = float(dec)
    s.err_dec = 2e-5 * (k + 1)
    s.peak_flux = float(flux)
    s.err_peak_flux = 0.02 + 0.001 * k
    s.int_flux = float(flux) * 1.5
    s.err_int_flux = 0.03 + 0.001 * k
    s.a = 1.25 * size
    s.err_a = 0.5
    s.b = 0.8 * size
    s.err_b = 0.25
    s.pa = float(pa)
    s.err_pa = 1.5
    s.flags = k % 8
    s.peak_pixel = float(flux) * 0.98
    s.residual_mean = 1e-4 * (k + 1)
    s.residual_std = 2e-4 * (k + 1)
    s.uuid = _uuid(k)
    s.psf_a = size
    s.psf_b = 0.9 * size
    s.psf_pa = 5.0
    return s


def _rows(mask, flux):
    """list of (lattice point, flux) of the catalogue, or None when this flux variant does not apply"""
    pts = _bits(mask)
    if flux == "distinct":
        return [(p, FLUX9[p]) for p in pts]
    if flux == "equal":
        return [(p, 1.0) for p in pts]
    # one position duplicated; the copy has the flux of the original (a two-way tie among otherwise distinct fluxes)
    d = pts[mask % len(pts)]
    return [(p, FLUX9[p]) for p in pts] + [(d, FLUX9[d])]


def _templates(rows, ra, dec, size):
    return [_mk_source(k, ra[p], dec[p], f, size, PA9[p]) for k, (p, f) in enumerate(rows)]


def _oracle_partition(rows, sep, eps_deg):
    """union-find over links sep <= eps; returns (partition of row numbers, n direct links, n chain-only pairs)"""
    n = len(rows)
    parent = list(range(n))

    def find(a):
        while parent[a] != a:
            parent[a] = parent[parent[a]]
            a = parent[a]
        return a
    links = 0
    direct = set()
    for i in range(n):
        for j in range(i + 1, n):
            if sep[rows[i][0], rows[j][0]] <= sphere.LD(eps_deg):
                links += 1
                direct.add((i, j))
                parent[find(i)] = find(j)
    groups = {}
    for i in range(n):
        groups.setdefault(find(i), set()).add(i)
    chain = sum(1 for i in range(n) for j in range(i + 1, n) if find(i) == find(j) and (i, j) not in direct)
    return frozenset(frozenset(_uuid(k) for k in g) for g in groups.values()), links, chain


def _same(a, b):
    try:
        if a is b:
            return True
        if isinstance(a, str) or isinstance(b, str):
            return isinstance(a, str) and isinstance(b, str) and a == b
        if a != a and b != b:
            return True
        return bool(a == b)
    except Exception:
        return False


def _snapshot(templates):
    return {t.uuid: {k: v for k, v in vars(t).items() if k not in ("island", "source")} for t in templates}


def _analyse(groups, snap):
    """structural checks of one regrouping result.  returns (list of (class, message), partition or None)"""
    probs = []
    try:
        groups = [list(g) for g in groups]
        flat = [s for g in groups for s in g]
        ids = [getattr(s, "uuid", None) for s in flat]
    except Exception as e:
        return [("partition", "result is not a list of lists of sources: %r" % (e,))], None
    cnt = {}
    for u in ids:
        cnt[u] = cnt.get(u, 0) + 1
    if set(cnt) != set(snap) or any(v != 1 for v in cnt.values()):
        missing = sorted(set(snap) - set(cnt))
        extra = sorted(str(u) for u in set(cnt) - set(snap))
        multi = sorted(u for u, v in cnt.items() if v != 1)
        return [("partition", "sources are not each in exactly one group: missing=%r extra=%r repeated=%r" % (
            [m[-2:] for m in missing], extra, [str(m)[-2:] for m in multi]))], None
    part = frozenset(frozenset(s.uuid for s in g) for g in groups if len(g))
    # labels
    lab = {}
    for s in flat:
        lab.setdefault((s.island, s.source), []).append(s.uuid[-2:])
    dup = {k: v for k, v in lab.items() if len(v) > 1}
    if dup:
        probs.append(("labels_unique", "(island, source) labels used more than once: %r" % (dup,)))
    for g in groups:
        if not g:
            continue
        nums = sorted(s.source for s in g)
        if [int(x) for x in nums] != list(range(len(g))):
            probs.append(("numbering", "group %r has source numbers %r, not 0..%d" % (
                [s.uuid[-2:] for s in g], nums, len(g) - 1)))
            break
        bad = [(a.uuid[-2:], b.uuid[-2:]) for a in g for b in g
               if snap[a.uuid]["peak_flux"] > snap[b.uuid]["peak_flux"] and not a.source < b.source]
        if bad:
            probs.append(("flux_order", "group %r: brighter source numbered after fainter for pairs %r (fluxes %r, numbers %r)" % (
                [s.uuid[-2:] for s in g], bad[:3], [snap[s.uuid]["peak_flux"] for s in g], [s.source for s in g])))
            break
    byisl = {}
    for s in flat:
        byisl.setdefault(s.island, set()).add(s.uuid)
    if frozenset(frozenset(v) for v in byisl.values()) != part:
        probs.append(("island_label", "island labels %r do not reproduce the returned groups %r" % (
            sorted((s.uuid[-2:], s.island) for s in flat), sorted(sorted(u[-2:] for u in g) for g in part))))
    # nothing else changed
    for s in flat:
        now = {k: v for k, v in vars(s).items() if k not in ("island", "source")}
        old = snap[s.uuid]
        ch = [k for k in sorted(set(now) | set(old)) if k not in now or k not in old or not _same(now[k], old[k])]
        if ch:
            k = ch[0]
            probs.append(("attr_changed", "source %s: attribute(s) %r changed (%s: %r -> %r)" % (
                s.uuid[-2:], ch, k, old.get(k, "<absent>"), now.get(k, "<absent>"))))
            break
    return probs, part


def _fmt_part(part):
    return sorted(sorted(int(u[-2:]) for u in g) for g in part)


def _describe(rows, ra, dec):
    return "[" + "; ".join("#%d pt%d ra=%.10g dec=%.10g flux=%g" % (k, p, ra[p], dec[p], f)
                           for k, (p, f) in enumerate(rows)) + "]"


def _connected(group_uuids, link):
    """is the group chain-connected under the symmetric link predicate (uuid, uuid) -> bool"""
    todo, seen = [group_uuids[0]], {group_uuids[0]}
    while todo:
        u = todo.pop()
        for v in group_uuids:
            if v not in seen and (link(u, v) or link(v, u)):
                seen.add(v)
                todo.append(v)
    return len(seen) == len(group_uuids)


def _run_perms(call, templates, snap, oracle, ctx, tag, where, rows, ra, dec, extra_first=None, link=None):
    """all permutations of the rows through `call(list_of_sources)`; one violation per class at most.
    oracle: expected partition or None (then only order independence against the first permutation)"""
    n = len(templates)
    reported = set()
    first = None
    outcome = None

    def report(cls, msg, perm, container):
        if cls in reported:
            return
        reported.add(cls)
        ctx.violation("%s %s rows=%s order=%r%s: %s" % (tag, where, _describe(rows, ra, dec), list(perm), container, msg),
                      "%s_%s|%s,n=%d" % (tag, cls, where, n))

    variants = [(perm, "") for perm in itertools.permutations(range(n))]
    if extra_first is not None:
        variants.insert(1, (tuple(range(n)), extra_first))
    for perm, container in variants:
        cat = [copy.copy(templates[i]) for i in perm]
        arg = cat
        if container:
            arg = np.empty(n, dtype=object)      # AeReg hands over np.array(list_of_sources)
            for i, s in enumerate(cat):
                arg[i] = s
        ctx.count(tag + "_calls")
        try:
            groups = call(arg)
        except Exception as e:
            report("raise", "raised %r" % (e,), perm, container)
            outcome = "raise"
            continue
        probs, part = _analyse(groups, snap)
        for cls, msg in probs:
            report(cls, msg, perm, container)
        if part is None:
            outcome = "broken"
            continue
        if link is not None:
            for g in part:
                if len(g) > 1 and not _connected(sorted(g), link):
                    report("disconnected_group", "group %r is not chain-connected: some member is linked to no other member by a chain of links below the linking length" % (
                        sorted(int(u[-2:]) for u in g),), perm, container)
                    break
        if oracle is not None and part != oracle:
            report("connectivity", "groups %r, expected (union-find of separations <= eps) %r" % (
                _fmt_part(part), _fmt_part(oracle)), perm, container)
        if first is None:
            first = part
            outcome = "groups=%d/%d" % (len(part), n)
        elif part != first:
            report("order_dependence", "groups %r differ from %r obtained for the first row order" % (
                _fmt_part(part), _fmt_part(first)), perm, container)
    return outcome, bool(reported)


# ---------------------------------------------------------------------------------------------------------------
def _limits(tier):
    """largest subset size per (dbscan flux variant), for the elliptical variant and for the command line"""
    if tier == "quick":
        return dict(distinct=5, equal=4, dup=3), 4, 2
    return dict(distinct=6, equal=6, dup=5), 5, 5


def axes(tier, seed):
    fl, ne, nc = _limits(tier)
    nd = max(fl.values())
    return dict(lattice=dict(x_offsets_eps=XOFF, y_offsets_eps=YOFF, rotation_deg=17.0 + core.seed_shift(seed, 1, 20.0)),
                locations=LOCS, eps_arcmin=EPS_ARCMIN, flux=FLUXES,
                dbscan_subsets={k: "all non-empty subsets of <= %d of 9 points (%d)%s" % (
                    v, sum(len(_masks(n)) for n in range(1, v + 1)), " + one duplicated row" if k == "dup" else "")
                    for k, v in fl.items()},
                permutations="all row orders (<= %d!) + the identity order as a numpy object array" % nd,
                ellip_subsets="all non-empty subsets of <= %d points" % ne, ellip_dist=["norm_dist", "sky_dist"],
                ellip_flux=["distinct", "equal (quick: subsets of <= %d points)" % (ne - 1)],
                cli_subsets="all non-empty subsets of <= %d points + the full lattice, rows in given and reversed order" % nc,
                resize=dict(rows=[r[0] for r in RESIZE_ROWS], subsets="all 63 non-empty subsets", orders="all permutations",
                            ratio=[None, 1, 1.5, 3]))


def cases(tier, seed):
    fl, ne, nc = _limits(tier)
    nd = max(fl.values())
    for m in range(1, 64):
        yield "resize", dict(rows=m)
    for n in range(1, nd + 1):
        for mask in _masks(n):
            for loc in LOCS:
                for eps in EPS_ARCMIN:
                    yield "dbscan", dict(mask=mask, loc=loc, eps=eps, flux=[f for f in FLUXES if n <= fl[f]])
                    if n <= ne:
                        yield "ellip", dict(mask=mask, loc=loc, eps=eps,
                                            flux=["distinct", "equal"] if n < ne or tier != "quick" else ["distinct"])
                    if n <= nc:
                        yield "cli", dict(mask=mask, loc=loc, eps=eps)
    for loc in LOCS:
        for eps in EPS_ARCMIN:
            yield "cli", dict(mask=511, loc=loc, eps=eps)
    # the linking length as the priorized fitter applies it (explicit arcmin value, or the default 4 x mean major axis)
    for eps in (1.0, 4.0, None):
        for mask in ([511, 0b101101101, 0b000111010] if tier == "quick" else [511] + _masks(5)[::6] + _masks(3)[::5]):
            yield "priorized", dict(mask=mask, eps=eps)
    # decisive links very close to the linking length (the regular lattice keeps every pair >= 1e-3 away from it)
    for eps in (1.0, 4.0):
        for delta in (1e-5, 1e-4):
            for k in range(8):
                yield "near_tie", dict(eps=eps, delta=delta, k=k)


# ---------------------------------------------------------------------------------------------------------------
def ev_dbscan(case, ctx):
    mask, loc, eps = case["mask"], case["loc"], case["eps"]
    ra, dec, sep = _lattice(loc, eps, ctx.seed)
    eps_deg = eps / 60.0
    # the conversion both callers apply (AeReg.main and SourceFinder.priorized_fit_islands)
    eps_chord = np.sin(np.radians(eps / 60))
    for flux in case.get("flux", FLUXES):
        rows = _rows(mask, flux)
        templates = _templates(rows, ra, dec, 30.0)
        snap = _snapshot(templates)
        oracle, links, chain = _oracle_partition(rows, sep, eps_deg)
        where = "loc=%s,eps=%g',mask=%d,flux=%s" % (loc, eps, mask, flux)
        outcome, bad = _run_perms(lambda cat: cluster.regroup_dbscan(cat, eps=eps_chord), templates, snap, oracle, ctx,
                                  "dbscan", where, rows, ra, dec, extra_first=" (numpy object array)")
        n = len(rows)
        npairs = n * (n - 1) // 2
        if n >= 2:
            ctx.nontrivial("dbscan," + where)
        if links and links < npairs:
            ctx.count("dbscan_catalogues_with_linked_and_unlinked_pairs")
        if chain:
            ctx.count("dbscan_catalogues_with_chain_only_pairs")
        ctx.outcome("dbscan:%s%s%s" % (outcome, ":chain" if chain else "", ":VIOLATION" if bad else ""))


def ev_near_tie(case, ctx):
    """three-source chains A - B - C at a generic sky position: |AB| = 0.5 eps, |BC| = eps (1 +- delta).  For eps <= 4 arcmin
    the callers' chord conversion sin(eps) vs 2 sin(eps/2) is off by eps^2/8 <= 1.7e-7 relative, far below delta, so whether
    C belongs to the group of A and B is decided by the sign of delta alone."""
    from mc.oracles import sphere
    eps, delta, k = case["eps"], case["delta"], case["k"]
    eps_deg = eps / 60.0
    eps_chord = np.sin(np.radians(eps / 60))
    ra0 = [33.7, 121.3, 205.9, 289.1, 347.3, 77.7, 158.2, 251.6][k] + core.seed_shift(ctx.seed, 60, 0.5)
    dec0 = [-41.3, 27.8, -8.9, 58.4, -63.2, 12.6, -25.1, 44.9][k]
    bearing_ab = 37.0 + 41.0 * k
    bearing_bc = 113.0 + 29.0 * k
    for sign in (+1, -1):
        rb, db = sphere.destination(ra0, dec0, 0.5 * eps_deg, bearing_ab)
        rb, db = float(rb), float(db)
        rc, dc = sphere.destination(rb, db, eps_deg * (1 + sign * delta), bearing_bc)
        rc, dc = float(rc), float(dc)
        pts = [(ra0, dec0), (rb, db), (rc, dc)]
        d_bc = float(sphere.dist(rb, db, rc, dc))
        d_ac = float(sphere.dist(ra0, dec0, rc, dc))
        if abs(d_bc / eps_deg - (1 + sign * delta)) > delta * 0.05 or d_ac <= eps_deg * (1 + 10 * delta):
            continue        # construction not decisive for this geometry
        where = "near_tie:eps=%g',delta=%+g,k=%d" % (eps, sign * delta, k)
        ctx.count("near_tie")
        ctx.nontrivial(where)
        expect = [frozenset([0, 1, 2])] if sign < 0 else [frozenset([0, 1]), frozenset([2])]
        for perm in itertools.permutations(range(3)):
            cat = [_mk_source(i, pts[i][0], pts[i][1], 1.0 + 0.1 * i, 30.0, 10.0) for i in perm]
            try:
                groups = cluster.regroup_dbscan(cat, eps=eps_chord)
            except Exception as e:
                ctx.violation("regroup_dbscan raised %r (%s)" % (e, where), "near_tie_raise|" + where)
                break
            got = sorted((frozenset(int(str(s_.uuid)[-3:]) for s_ in g) for g in groups), key=sorted)
            if got != sorted(expect, key=sorted):
                ctx.violation("sources B and C are %.9f linking lengths apart (eps = %g arcmin) but the grouping is %r, expected %r (%s, row order %r)" % (
                    d_bc / eps_deg, eps, [sorted(g) for g in got], [sorted(g) for g in expect], where, perm), "near_tie|" + where)
                break
        ctx.outcome("near_tie:%s" % ("joined" if sign < 0 else "separate"))


def ev_ellip(case, ctx):
    mask, loc, eps = case["mask"], case["loc"], case["eps"]
    ra, dec, sep = _lattice(loc, eps, ctx.seed)
    eps_deg = eps / 60.0
    # source sizes such that norm_dist = 4 (the historical default eps) corresponds to a separation of about eps
    size = eps_deg * 3600.0 / (4.0 * np.sqrt(2.0))
    for dist_name, dist, e in (("norm_dist", cluster.norm_dist, 4.0), ("sky_dist", cluster.sky_dist, eps_deg)):
        for flux in case.get("flux", ["distinct", "equal"]):
            rows = _rows(mask, flux)
            templates = _templates(rows, ra, dec, size)
            snap = _snapshot(templates)
            where = "loc=%s,eps=%g',mask=%d,flux=%s,dist=%s" % (loc, eps, mask, flux, dist_name)
            by_uuid = {t.uuid: t for t in templates}
            if dist_name == "sky_dist":
                idx = {t.uuid: rows[k][0] for k, t in enumerate(templates)}
                link = lambda u, v: bool(sep[idx[u]][idx[v]] <= eps_deg) or idx[u] == idx[v]
            else:
                def link(u, v):
                    with np.errstate(all="ignore"):
                        r_ = cluster.norm_dist(by_uuid[u], by_uuid[v])
                    return bool(r_ < e)
            outcome, bad = _run_perms(lambda cat: cluster.regroup(cat, eps=e, far=None, dist=dist), templates, snap, None,
                                      ctx, "ellip", where, rows, ra, dec, link=link)
            if dist_name == "norm_dist" and flux == "distinct" and len(rows) >= 3:
                # one source of zero size (an unresolved source listed with its deconvolved size): its normalised distances are
                # undefined, it is linked to nothing; every group must still be chain-connected
                t2 = [copy.copy(t) for t in templates]
                t2[1].a = t2[1].b = 0.0
                by2 = {t.uuid: t for t in t2}

                def link2(u, v):
                    with np.errstate(all="ignore"):
                        r_ = cluster.norm_dist(by2[u], by2[v])
                    return bool(r_ < e)
                with np.errstate(all="ignore"):
                    _run_perms(lambda cat: cluster.regroup(cat, eps=e, far=None, dist=dist), t2, _snapshot(t2), None,
                               ctx, "ellip_zero_size", where, rows, ra, dec, link=link2)
            if len(rows) >= 2:
                ctx.nontrivial("ellip," + where)
            ctx.outcome("ellip:%s:%s%s" % (dist_name, outcome, ":VIOLATION" if bad else ""))


# ---------------------------------------------------------------------------------------------------------------
def ev_cli(case, ctx):
    from astropy.io import ascii
    from astropy.table import Table
    from AegeanTools.CLI import AeReg
    mask, loc, eps = case["mask"], case["loc"], case["eps"]
    ra, dec, sep = _lattice(loc, eps, ctx.seed)
    rows = _rows(mask, "distinct")
    templates = _templates(rows, ra, dec, 30.0)
    snap = _snapshot(templates)
    oracle, links, chain = _oracle_partition(rows, sep, eps / 60.0)
    d = os.environ["VERIF_SCRATCH"]
    n = len(rows)
    names = ComponentSource.names
    for (order_name, order), ratio in itertools.product((("given", list(range(n))), ("reversed", list(range(n))[::-1])), (None, 1.5, 3.0)):
        if n == 1 and order_name == "reversed":
            continue
        if ratio is not None and (order_name == "reversed" or n < 2):
            continue
        where = "loc=%s,eps=%g',mask=%d,order=%s" % (loc, eps, mask, order_name) + ("" if ratio is None else ",ratio=%g" % ratio)
        sig = "|%s,n=%d" % (where, n)
        fin = os.path.join(d, "c19_in.csv")
        fout = os.path.join(d, "c19_out.csv")
        fout_real = os.path.join(d, "c19_out_comp.csv")
        for f in (fin, fout_real):
            if os.path.exists(f):
                os.remove(f)
        tab = Table([[getattr(templates[i], nm) for i in order] for nm in names], names=names)
        ascii.write(tab, fin, format="csv", overwrite=True)
        ctx.count("cli_runs")
        desc = "AeReg --eps %r%s on %s %s" % (eps, "" if ratio is None else " --ratio %g" % ratio, where, _describe(rows, ra, dec))
        try:
            rc = AeReg.main(["--input", fin, "--table", fout, "--eps", repr(eps)] + ([] if ratio is None else ["--ratio", repr(ratio)]))
            if rc != 0 or not os.path.exists(fout_real):
                ctx.violation("%s: exit code %r, output table %s" % (desc, rc, "present" if os.path.exists(fout_real) else "absent"),
                              "cli_failed" + sig)
                ctx.outcome("cli:failed")
                continue
            out = ascii.read(fout_real, format="csv")
        except Exception as e:
            ctx.violation("%s raised %r" % (desc, e), "cli_raise" + sig)
            ctx.outcome("cli:raise")
            continue
        finally:
            for f in (fin, fout_real):
                if os.path.exists(f):
                    os.remove(f)
        # rebuild source-like objects from the output table (plain astropy, no AegeanTools reader)
        flat = []
        for row in out:
            s = ComponentSource.__new__(ComponentSource)
            for nm in out.colnames:
                v = row[nm]
                s.__dict__[nm] = v.item() if hasattr(v, "item") else v
            if isinstance(s.__dict__.get("uuid"), bytes):
                s.uuid = s.uuid.decode()
            flat.append(s)
        if set(out.colnames) != set(names):
            ctx.violation("%s: output columns %r differ from the input columns" % (desc, sorted(set(out.colnames) ^ set(names))),
                          "cli_columns" + sig)
            ctx.outcome("cli:columns")
            continue
        # groups as a reader of the table sees them: rows sharing the island number
        byisl = {}
        for s in flat:
            byisl.setdefault(s.island, []).append(s)
        snap_t = {u: {k: x for k, x in v.items() if k in names} for u, v in snap.items()}   # the table columns
        probs, part = _analyse(list(byisl.values()), snap_t)
        if ratio is not None:
            # --ratio rescales the shapes (C19's resize clause judges that); the grouping must still follow --eps
            probs = [(c_, m_) for c_, m_ in probs if c_ != "attr_changed"]
        bad = False
        for cls, msg in probs:
            bad = True
            ctx.violation("%s: %s" % (desc, msg), "cli_%s%s" % (cls, sig))
        if part is not None and part != oracle:
            bad = True
            ctx.violation("%s: islands %r, expected (union-find of separations <= eps) %r" % (desc, _fmt_part(part), _fmt_part(oracle)),
                          "cli_connectivity" + sig)
        if n >= 2:
            ctx.nontrivial("cli," + where)
        ctx.outcome("cli:%s%s" % ("groups=%d/%d" % (len(part), n) if part is not None else "broken", ":VIOLATION" if bad else ""))


# ---------------------------------------------------------------------------------------------------------------
# resize: (name, a, b, pa, psf_a, psf_b, psf_pa, valid)
RESIZE_ROWS = [
    ("point", 25.0, 18.0, 10.0, 25.0, 18.0, 10.0, True),            # unresolved: shape = psf
    ("extended", 75.3, 27.1, -60.0, 25.0, 18.0, 10.0, True),
    ("bigpsf", 130.0, 130.0, 0.0, 120.0, 120.0, 0.0, True),         # circular, low-resolution catalogue
    ("subpsf", 20.0, 14.4, 89.9, 25.0, 18.0, 10.0, True),           # fitted smaller than the psf (noise)
    ("psf_nan", 40.0, 30.0, 45.0, float("nan"), float("nan"), float("nan"), False),
    ("psf_zero", 40.0, 30.0, -45.0, 0.0, -1.0, 0.0, False),
]
RATIOS = [None, 1, 1.5, 3]


def ev_resize(case, ctx):
    idx = _bits(case["rows"], 6)
    templates = []
    for k, i in enumerate(idx):
        nm, a, b, pa, pa_, pb_, ppa_, valid = RESIZE_ROWS[i]
        s = _mk_source(k, 150.0 + 0.01 * i, -35.0 + 0.01 * i, FLUX9[i], 30.0, pa)
        s.a, s.b, s.pa, s.psf_a, s.psf_b, s.psf_pa = a, b, pa, pa_, pb_, ppa_
        templates.append((s, valid, nm))
    n = len(templates)
    for ratio in RATIOS:
        if ratio is None and not CHECK_RATIO_NONE:
            continue
        reported = set()
        tag = "ratio=%r" % (ratio,)
        where = "rows=%s,%s" % ("+".join(t[2] for t in templates), tag)
        nvalid = 0
        for perm in itertools.permutations(range(n)):
            cat = [copy.copy(templates[i][0]) for i in perm]
            ctx.count("resize_calls")

            def report(cls, msg):
                if cls in reported:
                    return
                reported.add(cls)
                ctx.violation("resize(%s) on rows %r (order %r): %s" % (
                    tag, [(templates[i][2], templates[i][0].a, templates[i][0].b, templates[i][0].pa, templates[i][0].psf_a,
                           templates[i][0].psf_b) for i in perm], list(perm), msg),
                    "resize_%s|%s" % (cls, tag if cls.endswith("raise") else "%s,first=%s" % (where, templates[perm[0]][2])))
            try:
                out = cluster.resize(cat, ratio=ratio) if ratio is not None else cluster.resize(cat)
                out = list(out)
            except Exception as e:
                report("none_raise" if ratio is None else "raise", "raised %r" % (e,))
                continue
            byid = {}
            for s in out:
                byid.setdefault(s.uuid, []).append(s)
            for i in perm:
                t, valid, nm = templates[i]
                if not valid:
                    ctx.count("resize_rows_with_invalid_psf_not_judged")
                    continue
                nvalid += 1
                got = byid.get(t.uuid, [])
                if len(got) != 1:
                    report("dropped", "source %s with valid psf columns appears %d times in the output" % (nm, len(got)))
                    continue
                g = got[0]
                if ratio is None or ratio == 1:
                    for att in ("a", "b", "pa"):
                        o, w = float(getattr(g, att)), float(getattr(t, att))
                        err = abs(o - w) / max(abs(w), 1.0)
                        ctx.note_max("resize_identity_rel_dev", err if err == err else np.inf)
                        if not err <= 1e-12:
                            report("identity", "source %s: %s = %r, was %r" % (nm, att, o, w))
                else:
                    for att in ("a", "b"):
                        o, w = float(getattr(g, att)), float(getattr(t, att))
                        if not o >= w:
                            report("shrink", "source %s: %s = %r is smaller than before (%r)" % (nm, att, o, w))
        if n >= 2:
            ctx.nontrivial("resize," + where)
        ctx.outcome("resize:%s:%s" % (tag, "+".join(sorted(reported)) if reported else ("ok" if nvalid else "nothing_to_judge")))


def ev_priorized(case, ctx):
    """priorized_fit_islands(doregroup=True, regroup_eps=X arcmin | None): the islands of the output are the eps-connected
    groups of the input (X arcmin explicit, through the CLI too; None = 4 x the mean major axis)"""
    from checks import scenes
    from mc.oracles import skygauss
    from mc.oracles import wcs_zenithal as wz
    mask, eps = case["mask"], case["eps"]
    size = 30.0                                     # arcsec; templates have a = 1.25 * size
    eff = eps if eps is not None else 4 * 1.25 * size / 60.0        # arcmin
    ra, dec, sep = _lattice("mid", eff, ctx.seed)
    rows = _rows(mask, "distinct")
    templates = _templates(rows, ra, dec, size)
    for t in templates:
        t.flags = 0
    oracle, links, chain = _oracle_partition(rows, sep, eff / 60.0)
    cd = 7.5 / 3600
    npx = int(2 * 1.6 * eff * 60 / 7.5) + 40
    c0 = (float(np.mean(ra)), float(np.mean(dec)))
    hdr = wz.make_header("SIN", c0, cd, (npx, npx), beam=(size / 3600, 0.9 * size / 3600, 5.0))
    srcs = [dict(ra=t.ra, dec=t.dec, peak=t.peak_flux, a=t.a / 3600, b=t.b / 3600, pa=t.pa) for t in templates]
    d = os.environ["VERIF_SCRATCH"]
    f = os.path.join(d, "c19p.fits")
    scenes.write_image(f, hdr, skygauss.render(hdr, (npx, npx), srcs))
    where = "priorized,eps=%s,mask=%d" % ("default" if eps is None else "%g'" % eps, mask)
    desc = "priorized_fit_islands(regroup_eps=%r arcmin, doregroup=True) on %s" % (eps, _describe(rows, ra, dec))
    n = len(rows)
    try:
        for order_name, order in (("given", list(range(n))), ("reversed", list(range(n))[::-1])):
            ctx.count("priorized_runs")
            sig = "|%s,order=%s" % (where, order_name)
            cat = [copy.deepcopy(templates[i]) for i in order]
            try:
                out = scenes.finder().priorized_fit_islands(f, catalogue=cat, rms=0.01, bkg=0.0, stage=1, ratio=None, doregroup=True,
                                                            regroup_eps=eps, cores=1)
            except Exception as e:
                ctx.violation("%s raised %r" % (desc, e), "priorized_raise" + sig)
                ctx.outcome("priorized:raise")
                continue
            byisl = {}
            for s_ in out:
                byisl.setdefault(s_.island, set()).add(s_.uuid)
            got = frozenset(frozenset(v) for v in byisl.values())
            if set(u for g in got for u in g) != set(t.uuid for t in templates):
                ctx.violation("%s: %d of %d input sources returned" % (desc, len(out), n), "priorized_lost" + sig)
                ctx.outcome("priorized:lost")
                continue
            if n >= 2:
                ctx.nontrivial(where + order_name)
            if got != oracle:
                ctx.violation("%s (%s order): islands %r, expected (union-find of separations <= %.4g arcmin) %r" % (
                    desc, order_name, _fmt_part(got), eff, _fmt_part(oracle)), "priorized_connectivity" + sig)
                ctx.outcome("priorized:wrong_groups")
            else:
                ctx.outcome("priorized:groups=%d/%d" % (len(got), n))
    finally:
        if os.path.exists(f):
            os.remove(f)


CLAUSES = dict(priorized=ev_priorized, dbscan=ev_dbscan, ellip=ev_ellip, cli=ev_cli, resize=ev_resize)


def evaluate(clause, case, ctx):
    if clause == "near_tie":
        return ev_near_tie(case, ctx)
    CLAUSES[clause](case, ctx)
