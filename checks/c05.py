"""C05 Priorized fitting measures the catalogued sources where and as catalogued (E1, bounded-exhaustive)."""
import copy
import itertools
import os

import numpy as np

from AegeanTools.models import ComponentSource
from checks import scenes
from mc import core
from mc.oracles import skygauss
from mc.oracles import wcs_zenithal as wz

PROPERTY = "C05"
LEVEL = "exploration"
SHARDS = 16
RULE = ("full product source size ladder (8 sizes giving odd and even cut-out widths) x sub-pixel phase x stage x regroup x "
        "ratio on a noise-free image rendered from the catalogue by an independent model; catalogues of 3-4 sources (two "
        "isolated + a blend) under ALL row permutations; 'bad' rows (off-image on each side, on a blank pixel) inserted at "
        "EVERY position; catalogues without psf columns; one 49-source catalogue; non-trivial = every run; distinct = case")
ASSUMPTIONS = ["the image is exactly the noise-free model of the catalogue (rendered by mc/oracles/skygauss.py), forced rms",
               "frozen parameters: position to 1e-6 pixel, shape to the C16 round-trip tolerance (1e-3 relative, 0.01 deg), "
               "uncertainties exactly as input",
               "differential clauses (permutations, bad rows) compare by uuid with 1e-6 relative tolerance"]

SIZES = [4.0, 4.5, 5.5, 6.0, 6.5, 7.0, 8.0, 9.0]       # major FWHM in pixels; int(round(4*sx))+1 alternates odd/even
PHASES = [(0.0, 0.0), (0.3, 0.5), (0.5, 0.8), (0.8, 0.3)]
SHAPE = (96, 100)


# (row, col) placements relative to the image: distance d from the named edge(s), -d means from the far edge
EDGE_POS = [("low_row", 2.35, None), ("low_row5", 5.2, None), ("high_row", -2.6, None), ("low_col", None, 2.4), ("low_col5", None, 4.7),
            ("high_col", None, -2.3), ("corner_ll", 3.3, 3.6), ("corner_ul", -3.4, 3.2), ("corner_lr", 3.1, -3.5), ("corner_ur", -3.2, -3.3)]


def axes(tier, seed):
    return dict(edge_positions=[e[0] for e in EDGE_POS], size_px=SIZES, phase=PHASES, stage=[1, 2, 3], regroup=[True, False], ratio=[None, 1], permutations="all (24)",
                bad_rows=["off_left", "off_right", "off_top", "off_bottom", "on_nan"], psf_columns=["present", "absent"])


PHASES_T = [(a, b) for a in (0.0, 0.3, 0.5, 0.8) for b in (0.0, 0.3, 0.5, 0.8)]


def cases(tier, seed):
    nph = len(PHASES) if tier == "quick" else len(PHASES_T)
    for si, ph, stage in itertools.product(range(len(SIZES)), range(nph), [1, 2, 3]):
        yield "single", dict(size=si, phase=ph, stage=stage)
    # sources close to every edge and corner of the image (cut-outs clipped by the image boundary)
    for edge in range(len(EDGE_POS)):
        for si in ((0, 3, 7) if tier == "quick" else range(len(SIZES))):
            for stage in (1, 2, 3):
                yield "edges", dict(edge=edge, size=si, stage=stage)
    for stage in (1, 2, 3):
        for regroup in (True, False):
            yield "permutations", dict(stage=stage, regroup=regroup)
            if tier != "quick":
                yield "permutations", dict(stage=stage, regroup=regroup, five=True)
        # regrouping off, the blend labelled as ONE island by the input catalogue (rows of an island need not be adjacent)
        yield "permutations", dict(stage=stage, regroup=False, labelled=True)
        if tier != "quick":
            yield "permutations", dict(stage=stage, regroup=False, labelled=True, five=True)
    for stage in (1, 2, 3):
        yield "badrows", dict(stage=stage)
        for regroup in (True, False):
            yield "badrows_in_group", dict(stage=stage, regroup=regroup)
    for stage in (1, 3):
        for ratio in (None, 1):
            yield "nopsf", dict(stage=stage, ratio=ratio)
    # an explicit linking length (arcmin) larger than the blend's separation (0.92') keeps the blend in one fitting group
    for stage in (1, 2, 3):
        for eps in (1.0, 2.0):
            yield "explicit_eps", dict(stage=stage, eps=eps)
    # a catalogue made at another resolution in which ONE row lacks the psf columns (NaN): the answers for every source are the
    # same wherever that row stands
    for stage in (1, 2):
        for lacking in (0, 2):
            yield "mixedpsf", dict(stage=stage, lacking=lacking)
    # ratio = 1 is the identity whatever the catalogue's psf columns say (a catalogue made at another resolution)
    for stage in (1, 2, 3):
        for scale in (0.7, 1.25):
            yield "otherpsf", dict(stage=stage, scale=scale)
    # position angles quoted in another convention (0..180, 0..360, below -90): the same ellipse, the same answers
    for stage in (1, 2, 3):
        for pas in ([120.0, 215.0], [-135.0, 100.0], [179.5, 270.0], [360.0, -180.0]):
            yield "paconv", dict(stage=stage, pas=pas)
    yield "many", dict()


def hdr_():
    return scenes.scene_header(SHAPE)


def to_component(src, hdr, k, uuid=None):
    c = ComponentSource()
    c.island, c.source = k, 0
    c.ra, c.dec = src["ra"], src["dec"]
    c.peak_flux = src["peak"]
    c.a, c.b, c.pa = src["a"] * 3600, src["b"] * 3600, src["pa"]
    c.err_ra = c.err_dec = 1.25e-5 * (k + 1)
    c.err_a, c.err_b, c.err_pa = 0.11 * (k + 1), 0.07 * (k + 1), 0.5 * (k + 1)
    c.err_peak_flux = 0.01
    c.psf_a, c.psf_b, c.psf_pa = hdr["BMAJ"] * 3600, hdr["BMIN"] * 3600, hdr["BPA"]
    c.int_flux = c.peak_flux * c.a * c.b / (c.psf_a * c.psf_b)
    c.err_int_flux = 0.02
    c.local_rms = scenes.RMS
    c.background = 0.0
    c.flags = 0
    c.uuid = uuid or ("src-%04d" % k)
    c.ra_str, c.dec_str = "", ""
    c.residual_mean = c.residual_std = 0.0
    return c


def run(f, cat, **kw):
    return scenes.finder().priorized_fit_islands(f, catalogue=[copy.deepcopy(c) for c in cat], rms=scenes.RMS, bkg=0.0, cores=1, docov=False, **kw)


def check_against_truth(out, cat, truth, hdr, stage, ctx, sig, what):
    """out: returned components; cat: input components; truth: dict uuid -> skygauss source"""
    by = {}
    for s in out:
        if s.uuid in by:
            ctx.violation("two components for input source %s (%s)" % (s.uuid, what), "two_components|" + sig)
            return
        by[s.uuid] = s
    inp = {c.uuid: c for c in cat}
    cd = abs(hdr["CDELT2"])
    for uid, t in truth.items():
        if uid not in by:
            ctx.violation("no component returned for accepted input source %s (%s)" % (uid, what), "missing|" + sig)
            continue
        s, c = by[uid], inp[uid]
        if not int(s.flags) & 64:
            ctx.violation("component %s lacks the PRIORIZED flag (%s)" % (uid, what), "flag|" + sig)
        rel = lambda a, b: abs(a - b) / abs(b)
        sep = scenes.sky_sep_pix(hdr, s.ra, s.dec, t["ra"], t["dec"])
        ctx.note_max("flux_rel_stage%d" % stage, rel(s.peak_flux, t["peak"]))
        ctx.note_max("pos_px_stage%d" % stage, sep)
        if rel(s.peak_flux, t["peak"]) > 1e-3:
            ctx.violation("stage %d: flux of %s = %.6g, catalogue/model %.6g (%.2f %%) (%s)" % (stage, uid, s.peak_flux, t["peak"], 100 * rel(s.peak_flux, t["peak"]), what), "flux|" + sig)
        if stage == 1:
            if sep > 1e-6:
                ctx.violation("stage 1: frozen position of %s moved by %.3g pixel (%s)" % (uid, sep, what), "frozen_position|" + sig)
            if (s.err_ra, s.err_dec) != (c.err_ra, c.err_dec):
                ctx.violation("stage 1: position uncertainties of %s = (%r, %r), input (%r, %r) (%s)" % (uid, s.err_ra, s.err_dec, c.err_ra, c.err_dec, what), "frozen_position_err|" + sig)
        elif sep > 0.01:
            ctx.violation("stage %d: position of %s off by %.4f pixel (%s)" % (stage, uid, sep, what), "position|" + sig)
        if stage < 3:
            if rel(s.a, c.a) > 1e-3 or rel(s.b, c.b) > 1e-3 or scenes.pa_diff(s.pa, c.pa) > 0.01:
                ctx.violation("stage %d: frozen shape of %s = (%.5f, %.5f, %.4f), input (%.5f, %.5f, %.4f) (%s)" % (stage, uid, s.a, s.b, s.pa, c.a, c.b, c.pa, what), "frozen_shape|" + sig)
            if (s.err_a, s.err_b, s.err_pa) != (c.err_a, c.err_b, c.err_pa):
                ctx.violation("stage %d: shape uncertainties of %s = %r, input %r (%s)" % (stage, uid, (s.err_a, s.err_b, s.err_pa), (c.err_a, c.err_b, c.err_pa), what), "frozen_shape_err|" + sig)
        else:
            ctx.note_max("shape_rel_stage3", max(rel(s.a, c.a), rel(s.b, c.b)))
            if rel(s.a, c.a) > 1e-3 or rel(s.b, c.b) > 1e-3:
                ctx.violation("stage 3: shape of %s = (%.5f, %.5f), catalogue (%.5f, %.5f) (%s)" % (uid, s.a, s.b, c.a, c.b, what), "shape|" + sig)
    extra = set(by) - set(inp)
    if extra:
        ctx.violation("components with uuids that are not in the input: %r (%s)" % (sorted(extra), what), "uuid|" + sig)


def ev_single(case, ctx):
    d = os.environ["VERIF_SCRATCH"]
    hdr = hdr_()
    a = SIZES[case["size"]]
    ph = (PHASES if ctx.tier == "quick" else PHASES_T)[case["phase"]]
    dj = core.seed_shift(ctx.seed, 50, 0.15)
    srcs = [skygauss.source_at_pixel(hdr, 40.0 + ph[0] + dj, 44.0 + ph[1], 1.0, a, 3.2, 35.0),
            skygauss.source_at_pixel(hdr, 70.0 + ph[1], 20.0 + ph[0] + dj, -0.6, a * 0.9, 3.4, -50.0)]
    cat = [to_component(s, hdr, k) for k, s in enumerate(srcs)]
    truth = {c.uuid: s for c, s in zip(cat, srcs)}
    f = os.path.join(d, "c05.fits")
    scenes.write_image(f, hdr, skygauss.render(hdr, SHAPE, srcs))
    for regroup, ratio in itertools.product([True, False], [None, 1]):
        ctx.count("single")
        sig = "single:size=%g,phase=%r,stage=%d,regroup=%s,ratio=%r" % (a, ph, case["stage"], regroup, ratio)
        ctx.nontrivial(sig)
        try:
            out = run(f, cat, stage=case["stage"], doregroup=regroup, ratio=ratio)
        except Exception as e:
            ctx.violation("priorized fit raised %r (%s)" % (e, sig), "raise|" + sig)
            continue
        ctx.outcome("n=%d" % len(out))
        check_against_truth(out, cat, truth, hdr, case["stage"], ctx, sig, sig)


def ev_edges(case, ctx):
    d = os.environ["VERIF_SCRATCH"]
    hdr = hdr_()
    rows, cols = SHAPE
    name, dr, dc = EDGE_POS[case["edge"]]
    a = SIZES[case["size"]]
    r = (rows / 2.0 + 3.3) if dr is None else (dr if dr > 0 else rows - 1 + dr)
    c = (cols / 2.0 - 2.7) if dc is None else (dc if dc > 0 else cols - 1 + dc)
    srcs = [skygauss.source_at_pixel(hdr, r, c, 1.0, a, 3.2, 35.0),
            skygauss.source_at_pixel(hdr, rows / 2.0 - 11.0, cols / 2.0 + 9.5, 0.7, 5.5, 3.3, -20.0)]
    cat = [to_component(s_, hdr, k) for k, s_ in enumerate(srcs)]
    truth = {c_.uuid: s_ for c_, s_ in zip(cat, srcs)}
    f = os.path.join(d, "c05e.fits")
    scenes.write_image(f, hdr, skygauss.render(hdr, SHAPE, srcs))
    sig = "edges:%s,size=%g,stage=%d" % (name, a, case["stage"])
    ctx.count("edges")
    ctx.nontrivial(sig)
    try:
        out = run(f, cat, stage=case["stage"])
    except Exception as e:
        ctx.violation("priorized fit raised %r (%s)" % (e, sig), "raise|" + sig)
        return
    ctx.outcome("edge_n=%d" % len(out))
    check_against_truth(out, cat, truth, hdr, case["stage"], ctx, sig, sig)


def base_catalogue(hdr):
    srcs = [skygauss.source_at_pixel(hdr, 25.3, 30.6, 1.0, 5.5, 3.3, 20.0),
            skygauss.source_at_pixel(hdr, 70.1, 75.4, 0.7, 6.5, 3.6, -65.0),
            skygauss.source_at_pixel(hdr, 60.0, 25.0, 0.9, 4.6, 3.2, 10.0),
            skygauss.source_at_pixel(hdr, 64.2, 28.6, 0.5, 4.4, 3.1, 70.0)]     # blended with the previous one
    return srcs


def same_results(a, b, tol=1e-6):
    """compare two result lists by uuid; returns list of differences"""
    A = {s.uuid: s for s in a}
    B = {s.uuid: s for s in b}
    diffs = []
    if set(A) != set(B):
        return ["uuid sets differ: %r vs %r" % (sorted(A), sorted(B))]
    for u in A:
        for fld in ("ra", "dec", "peak_flux", "int_flux", "a", "b", "pa", "flags", "err_peak_flux", "err_a", "err_b", "err_pa", "err_ra", "err_dec"):
            x, y = getattr(A[u], fld), getattr(B[u], fld)
            if not (x == y or abs(x - y) <= tol * max(abs(x), abs(y), 1e-12)):
                diffs.append("%s.%s: %r vs %r" % (u, fld, x, y))
    return diffs


def ev_permutations(case, ctx):
    d = os.environ["VERIF_SCRATCH"]
    hdr = hdr_()
    srcs = base_catalogue(hdr)
    if case.get("five"):
        srcs = srcs + [skygauss.source_at_pixel(hdr, 30.5, 80.2, -0.8, 7.0, 3.4, 80.0)]
    cat = [to_component(s, hdr, k) for k, s in enumerate(srcs)]
    grouped = case["regroup"] or case.get("labelled")
    if case.get("labelled"):
        cat[2].island, cat[2].source, cat[3].island, cat[3].source = 2, 0, 2, 1
        for c in cat[4:]:
            c.island -= 1
    truth = {c.uuid: s for c, s in zip(cat, srcs)}
    f = os.path.join(d, "c05p.fits")
    scenes.write_image(f, hdr, skygauss.render(hdr, SHAPE, srcs))
    base = None
    for perm in itertools.permutations(range(len(cat))):
        ctx.count("permutation")
        sig = "perm:%s,stage=%d,regroup=%s%s" % ("".join(map(str, perm)), case["stage"], case["regroup"], ",labelled" if case.get("labelled") else "")
        ctx.outcome("perm_n=%d" % len(cat))
        ctx.nontrivial(sig)
        try:
            out = run(f, [cat[i] for i in perm], stage=case["stage"], doregroup=case["regroup"])
        except Exception as e:
            ctx.violation("priorized fit raised %r (%s)" % (e, sig), "raise|" + sig)
            continue
        if base is None:
            base = out
            if grouped:
                check_against_truth(out, cat, truth, hdr, case["stage"], ctx, sig, sig)
            continue
        if grouped:
            df = same_results(base, out)
            if df:
                ctx.violation("results depend on the row order: %s (%s)" % ("; ".join(df[:3]), sig), "order|" + sig)


def ev_badrows(case, ctx):
    d = os.environ["VERIF_SCRATCH"]
    hdr = hdr_()
    srcs = base_catalogue(hdr)[:3]
    img = skygauss.render(hdr, SHAPE, srcs)
    img[5:12, 80:90] = np.nan
    cat = [to_component(s, hdr, k) for k, s in enumerate(srcs)]
    f = os.path.join(d, "c05b.fits")
    scenes.write_image(f, hdr, img)
    rows, cols = SHAPE
    bad_pix = dict(off_left=(40.0, -6.0), off_right=(40.0, cols + 5.0), off_top=(rows + 4.0, 50.0), off_bottom=(-7.0, 50.0), on_nan=(8.0, 85.0))
    try:
        base = run(f, cat, stage=case["stage"])
    except Exception as e:
        ctx.violation("priorized fit raised %r (baseline)" % (e,), "raise|badrows,baseline,stage=%d" % case["stage"])
        return
    for kind, (r, c) in bad_pix.items():
        bad = to_component(skygauss.source_at_pixel(hdr, r, c, 0.8, 5.0, 3.3, 0.0), hdr, 9, uuid="bad-" + kind)
        for pos in range(len(cat) + 1):
            ctx.count("badrow")
            sig = "badrow:%s,pos=%d,stage=%d" % (kind, pos, case["stage"])
            ctx.nontrivial(sig)
            c2 = cat[:pos] + [bad] + cat[pos:]
            try:
                out = run(f, c2, stage=case["stage"])
            except Exception as e:
                ctx.violation("priorized fit raised %r with a %s source in the catalogue (%s)" % (e, kind, sig), "raise|" + sig)
                continue
            good = [s for s in out if not str(s.uuid).startswith("bad-")]
            nb = [s for s in out if str(s.uuid).startswith("bad-")]
            ctx.outcome("bad_returned=%d" % len(nb))
            if len(nb) > 1:
                ctx.violation("more than one component for the %s source (%s)" % (kind, sig), "two_components|" + sig)
            df = same_results(base, good)
            if df:
                ctx.violation("a %s source changes the results for the other sources: %s (%s)" % (kind, "; ".join(df[:3]), sig), "badrow_changes|" + sig)


def ev_badrows_in_group(case, ctx):
    """unusable rows that belong to the SAME fitting group as usable ones (a blend partner beyond the image edge, a blend
    partner on a blank pixel), under all row orders"""
    d = os.environ["VERIF_SCRATCH"]
    hdr = hdr_()
    rows, cols = SHAPE
    A = skygauss.source_at_pixel(hdr, 7.4, 40.3, 1.0, 5.5, 3.3, 20.0)          # near the lower edge
    C = skygauss.source_at_pixel(hdr, 52.2, 50.6, 0.8, 6.0, 3.4, -40.0)
    B = skygauss.source_at_pixel(hdr, -4.0, 44.0, 0.7, 5.0, 3.3, 10.0)          # beyond the edge, 12 px from A
    D = skygauss.source_at_pixel(hdr, 49.0, 58.0, 0.6, 5.0, 3.3, 60.0)          # on the blank patch, 8 px from C
    img = skygauss.render(hdr, SHAPE, [A, C])
    img[47:52, 56:61] = np.nan
    f = os.path.join(d, "c05g.fits")
    scenes.write_image(f, hdr, img)
    good = [to_component(A, hdr, 1, uuid="good-A"), to_component(C, hdr, 2, uuid="good-C")]
    bad = [to_component(B, hdr, 1, uuid="bad-B"), to_component(D, hdr, 2, uuid="bad-D")]
    # without regrouping the (island, source) labels of the input define the groups
    good[0].island, good[0].source, bad[0].island, bad[0].source = 1, 0, 1, 1
    good[1].island, good[1].source, bad[1].island, bad[1].source = 2, 0, 2, 1
    kw = dict(stage=case["stage"], doregroup=case["regroup"])
    try:
        base = run(f, good, **kw)
    except Exception as e:
        ctx.violation("priorized fit raised %r (baseline)" % (e,), "raise|badrows_in_group,baseline,%r" % (kw,))
        return
    truth = {"good-A": A, "good-C": C}
    check_against_truth(base, good, truth, hdr, case["stage"], ctx, "badrows_in_group:baseline,%r" % (kw,), "baseline")
    allrows = good + bad
    for perm in itertools.permutations(range(4)):
        ctx.count("badrows_in_group")
        sig = "badrows_in_group:order=%s,stage=%d,regroup=%s" % ("".join("ACBD"[i] for i in perm), case["stage"], case["regroup"])
        ctx.nontrivial(sig)
        try:
            out = run(f, [allrows[i] for i in perm], **kw)
        except Exception as e:
            ctx.violation("priorized fit raised %r (%s)" % (e, sig), "raise|" + sig)
            continue
        got_bad = [s_ for s_ in out if str(s_.uuid).startswith("bad-")]
        ctx.outcome("in_group_bad_returned=%d" % len(got_bad))
        if got_bad:
            ctx.violation("a component is returned under the uuid of an unmeasurable source: %r (%s)" % ([s_.uuid for s_ in got_bad], sig),
                          "badrow_uuid|" + sig)
        df = same_results(base, [s_ for s_ in out if not str(s_.uuid).startswith("bad-")])
        if df:
            ctx.violation("an unusable source in the same group changes the results for the others: %s (%s)" % ("; ".join(df[:3]), sig),
                          "badrow_in_group_changes|" + sig)


def ev_nopsf(case, ctx):
    """catalogue lacking the optional psf columns (written without them and loaded from the file)"""
    from astropy.table import Table
    d = os.environ["VERIF_SCRATCH"]
    hdr = hdr_()
    srcs = base_catalogue(hdr)[:3]
    cat = [to_component(s, hdr, k) for k, s in enumerate(srcs)]
    truth = {c.uuid: s for c, s in zip(cat, srcs)}
    f = os.path.join(d, "c05n.fits")
    scenes.write_image(f, hdr, skygauss.render(hdr, SHAPE, srcs))
    cols = ["island", "source", "ra", "dec", "peak_flux", "err_peak_flux", "int_flux", "err_int_flux", "a", "b", "pa", "err_a", "err_b", "err_pa",
            "err_ra", "err_dec", "flags", "uuid", "local_rms", "background"]
    t = Table()
    for cname in cols:
        t[cname] = [getattr(c, cname) for c in cat]
    fc = os.path.join(d, "c05_nopsf.csv")
    t.write(fc, overwrite=True)
    sig = "nopsf:stage=%d,ratio=%r" % (case["stage"], case["ratio"])
    ctx.count("nopsf")
    ctx.nontrivial(sig)
    try:
        out = scenes.finder().priorized_fit_islands(fc and f, catalogue=fc, rms=scenes.RMS, bkg=0.0, cores=1, docov=False, stage=case["stage"], ratio=case["ratio"])
    except Exception as e:
        ctx.violation("catalogue without psf columns: priorized fit raised %r (%s)" % (e, sig), "nopsf_raise|" + sig)
        return
    ctx.outcome("nopsf_n=%d" % len(out))
    if len(out) != len(cat):
        ctx.violation("catalogue without psf columns: %d of %d sources returned (%s)" % (len(out), len(cat), sig), "nopsf_dropped|" + sig)
        return
    check_against_truth(out, cat, truth, hdr, case["stage"], ctx, sig, sig)


def ev_paconv(case, ctx):
    d = os.environ["VERIF_SCRATCH"]
    hdr = hdr_()
    srcs = [skygauss.source_at_pixel(hdr, 40.3, 44.1, 1.0, 7.0, 3.2, case["pas"][0]),
            skygauss.source_at_pixel(hdr, 70.2, 20.4, -0.6, 6.0, 3.4, case["pas"][1])]
    cat = [to_component(s, hdr, k) for k, s in enumerate(srcs)]
    truth = {c.uuid: s for c, s in zip(cat, srcs)}
    f = os.path.join(d, "c05a.fits")
    scenes.write_image(f, hdr, skygauss.render(hdr, SHAPE, srcs))
    for regroup in (True, False):
        sig = "paconv:stage=%d,pa=%r,regroup=%s" % (case["stage"], case["pas"], regroup)
        ctx.count("paconv")
        ctx.nontrivial(sig)
        try:
            out = run(f, cat, stage=case["stage"], doregroup=regroup)
        except Exception as e:
            ctx.violation("priorized fit raised %r (%s)" % (e, sig), "raise|" + sig)
            continue
        ctx.outcome("paconv_n=%d" % len(out))
        check_against_truth(out, cat, truth, hdr, case["stage"], ctx, sig, sig)
        if case["stage"] == 3:
            for s_ in out:
                c_ = [c for c in cat if c.uuid == s_.uuid]
                if c_ and scenes.pa_diff(s_.pa, c_[0].pa) > 0.05:
                    ctx.violation("stage 3: position angle of %s = %.4f, catalogue %.4f (same ellipse modulo 180) (%s)" % (s_.uuid, s_.pa, c_[0].pa, sig), "pa|" + sig)


def ev_explicit_eps(case, ctx):
    d = os.environ["VERIF_SCRATCH"]
    hdr = hdr_()
    srcs = base_catalogue(hdr)
    cat = [to_component(s, hdr, k) for k, s in enumerate(srcs)]
    truth = {c.uuid: s for c, s in zip(cat, srcs)}
    f = os.path.join(d, "c05x.fits")
    scenes.write_image(f, hdr, skygauss.render(hdr, SHAPE, srcs))
    sig = "explicit_eps:stage=%d,regroup_eps=%g'" % (case["stage"], case["eps"])
    ctx.count("explicit_eps")
    ctx.nontrivial(sig)
    try:
        out = run(f, cat, stage=case["stage"], doregroup=True, regroup_eps=case["eps"])
    except Exception as e:
        ctx.violation("priorized fit raised %r (%s)" % (e, sig), "raise|" + sig)
        return
    ctx.outcome("explicit_eps_n=%d" % len(out))
    check_against_truth(out, cat, truth, hdr, case["stage"], ctx, sig, sig)
    isl = {}
    for s_ in out:
        isl.setdefault(s_.island, []).append(s_.uuid)
    groups = sorted(sorted(v) for v in isl.values())
    want = sorted([[cat[0].uuid], [cat[1].uuid], sorted([cat[2].uuid, cat[3].uuid])])
    if groups != want:
        ctx.violation("regroup_eps = %g arcmin: fitting groups %r, expected the blend (0.92' apart) together and the two isolated sources alone (%s)" % (case["eps"], groups, sig), "explicit_eps_groups|" + sig)


def ev_mixedpsf(case, ctx):
    d = os.environ["VERIF_SCRATCH"]
    hdr = hdr_()
    srcs = base_catalogue(hdr)
    cat = [to_component(s, hdr, k) for k, s in enumerate(srcs)]
    for k, c in enumerate(cat):
        if k == case["lacking"]:
            c.psf_a = c.psf_b = c.psf_pa = float("nan")
        else:
            c.psf_a *= 0.75
            c.psf_b *= 0.75
    f = os.path.join(d, "c05q.fits")
    scenes.write_image(f, hdr, skygauss.render(hdr, SHAPE, srcs))
    base = None
    for perm in itertools.permutations(range(len(cat))):
        ctx.count("mixedpsf")
        sig = "mixedpsf:%s,stage=%d,lacking=%d" % ("".join(map(str, perm)), case["stage"], case["lacking"])
        ctx.nontrivial(sig)
        try:
            out = run(f, [cat[i] for i in perm], stage=case["stage"], doregroup=True)
        except Exception as e:
            ctx.violation("priorized fit raised %r (%s)" % (e, sig), "raise|" + sig)
            continue
        ctx.outcome("mixedpsf_n=%d" % len(out))
        if base is None:
            base = out
            continue
        df = same_results(base, out)
        if df:
            ctx.violation("one row without psf columns: the results depend on where it stands: %s (%s)" % ("; ".join(df[:3]), sig), "mixedpsf_order|" + sig)


def ev_otherpsf(case, ctx):
    d = os.environ["VERIF_SCRATCH"]
    hdr = hdr_()
    srcs = base_catalogue(hdr)
    cat = [to_component(s, hdr, k) for k, s in enumerate(srcs)]
    for c in cat:
        c.psf_a *= case["scale"]
        c.psf_b *= case["scale"]
        c.psf_pa = 40.0
    truth = {c.uuid: s for c, s in zip(cat, srcs)}
    f = os.path.join(d, "c05o.fits")
    scenes.write_image(f, hdr, skygauss.render(hdr, SHAPE, srcs))
    for regroup in (True, False):
        sig = "otherpsf:stage=%d,psf_scale=%g,regroup=%s" % (case["stage"], case["scale"], regroup)
        ctx.count("otherpsf")
        ctx.nontrivial(sig)
        try:
            out = run(f, cat, stage=case["stage"], doregroup=regroup, ratio=1)
        except Exception as e:
            ctx.violation("priorized fit raised %r (%s)" % (e, sig), "raise|" + sig)
            continue
        ctx.outcome("otherpsf_n=%d" % len(out))
        if regroup:
            check_against_truth(out, cat, truth, hdr, case["stage"], ctx, sig, sig)
        else:
            # without regrouping the blended pair is fitted as two separate islands: only the isolated sources are predicted
            iso = [c for c in cat[:2]]
            check_against_truth([o for o in out if o.uuid in (iso[0].uuid, iso[1].uuid)], iso, {c.uuid: truth[c.uuid] for c in iso}, hdr,
                                case["stage"], ctx, sig, sig)


def ev_many(case, ctx):
    d = os.environ["VERIF_SCRATCH"]
    hdr, img, srcs = scenes.grid_scene(7, (256, 256))
    cat = [to_component(s, hdr, k) for k, s in enumerate(srcs)]
    truth = {c.uuid: s for c, s in zip(cat, srcs)}
    f = os.path.join(d, "c05m.fits")
    scenes.write_image(f, hdr, img)
    for stage in (1, 2, 3):
        sig = "many:49,stage=%d" % stage
        ctx.count("many")
        ctx.nontrivial(sig)
        try:
            out = run(f, cat, stage=stage)
        except Exception as e:
            ctx.violation("priorized fit raised %r (%s)" % (e, sig), "raise|" + sig)
            continue
        check_against_truth(out, cat, truth, hdr, stage, ctx, sig, sig)


def evaluate(clause, case, ctx):
    dict(single=ev_single, edges=ev_edges, permutations=ev_permutations, badrows=ev_badrows, badrows_in_group=ev_badrows_in_group, nopsf=ev_nopsf, many=ev_many, otherpsf=ev_otherpsf, paconv=ev_paconv, explicit_eps=ev_explicit_eps, mixedpsf=ev_mixedpsf)[clause](case, ctx)
