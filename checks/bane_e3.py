"""E3 harness: the real BANE.filter_mc_sharemem under the controlled scheduler (shared by C07 and C06)."""
import hashlib
import os

import numpy as np
from astropy.io import fits

import aegean_verif_hooks
from AegeanTools import BANE
from mc import sched as S

REAL_MP = BANE.multiprocessing
REAL_SHM = BANE.SharedMemory


class FakeSharedMemory(object):
    """process-local stand-in for multiprocessing.shared_memory.SharedMemory with exact create/unlink bookkeeping"""
    registry = {}
    log = []

    def __init__(self, name=None, create=False, size=0):
        self.name = name
        if create:
            if name in self.registry:
                raise FileExistsError(name)
            self.registry[name] = bytearray(int(size))   # zero filled, like a fresh segment
            self.log.append(("create", name))
        elif name not in self.registry:
            raise FileNotFoundError(name)
        self._mv = memoryview(self.registry[name])
        self.buf = self._mv
        self.size = len(self.registry[name])

    def close(self):
        self.buf = None

    def unlink(self):
        if self.name not in self.registry:
            raise FileNotFoundError(self.name)
        del self.registry[self.name]
        self.log.append(("unlink", self.name))


def make_image(path, rows, cols, nan_block=False, offset=1024.0, seed=1, cube=None, slope=0.0):
    rs = np.random.RandomState(1000 + seed)
    # dyadic lattice noise (multiples of 2^-10), DC offset, optional gradient
    noise = np.round(rs.normal(0.0, 1.0, size=(rows, cols)) * 1024) / 1024.0
    data = noise + offset + slope * np.arange(rows)[:, None]
    if nan_block:
        data[rows // 3: rows // 3 + 2, 2:5] = np.nan
    data = data.astype(np.float64)
    hdu = fits.PrimaryHDU(data=data if cube is None else np.stack([data + 7 * k for k in range(cube)]))
    hdu.header["CDELT1"] = -0.01
    hdu.header["CDELT2"] = 0.01
    hdu.writeto(path, overwrite=True)
    return data


class Observation(object):
    __slots__ = ("outcome", "detail", "bkg", "rms", "digest", "leaked", "points", "traces", "barrier_returns",
                 "events", "n_tasks", "parties", "processes", "regions", "exc")


def run_schedule(inst, choices=(), fault=None, record_only=False):
    """
    inst: dict(file, shape, grid, box, cores, nslice, mask)
    fault: (stripe index, label) at which the hook raises
    returns Observation
    """
    sch = S.Scheduler(choices)
    fmp = S.FakeMultiprocessing(sch)
    FakeSharedMemory.registry = {}
    FakeSharedMemory.log = []

    def handler(label, region):
        sch.yield_point(label)

    if fault is not None:
        def on_label(idx, label):
            if (idx, label) == tuple(fault):
                raise S.InjectedFault("injected fault in stripe %d at %s" % (idx, label))
        sch.on_label = on_label
    obs = Observation()
    obs.bkg = obs.rms = None
    obs.exc = None
    BANE.multiprocessing = fmp
    BANE.SharedMemory = FakeSharedMemory
    aegean_verif_hooks.handler = handler
    try:
        try:
            bkg, rms = BANE.filter_mc_sharemem(inst["file"], step_size=tuple(inst["grid"]), box_size=tuple(inst["box"]),
                                               cores=inst["cores"], shape=tuple(inst["shape"]), nslice=inst["nslice"],
                                               domask=inst["mask"], cube_index=inst.get("cube_index", 0))
            obs.outcome = "ok"
            obs.detail = ""
            obs.bkg, obs.rms = bkg, rms
            obs.digest = hashlib.sha1(bkg.tobytes() + rms.tobytes()).hexdigest()[:16]
        except S.Deadlock as e:
            obs.outcome = "deadlock"
            obs.detail = str(e)
            obs.digest = None
        except S.ReplayDivergence:
            raise
        except Exception as e:
            obs.outcome = "raised"
            obs.detail = "%s: %s" % (type(e).__name__, str(e).strip().splitlines()[-1][:200] if str(e).strip() else "")
            obs.exc = e
            obs.digest = None
    finally:
        BANE.multiprocessing = REAL_MP
        BANE.SharedMemory = REAL_SHM
        aegean_verif_hooks.handler = None
    obs.leaked = sorted(FakeSharedMemory.registry)
    obs.points = sch.points
    obs.traces = [t.trace for t in sch.tasks]
    obs.events = sch.events
    obs.n_tasks = len(sch.tasks)
    obs.regions = [tuple(t.arg[1]) for t in sch.tasks]
    b = fmp.ctx.barriers[0] if fmp.ctx.barriers else None
    obs.parties = b.parties if b else None
    obs.barrier_returns = list(b.wait_returns) if b else []
    obs.processes = sch.slots
    return obs


def filter_image_sim(im_name, out_base=None, **kw):
    """the real BANE.filter_image with the pool / shared memory simulated in-process (default schedule, no fork);
    returns ('ok', (bkg, rms)) | ('deadlock', msg) | ('raised', exc)"""
    import logging
    logging.disable(logging.CRITICAL)
    sch = S.Scheduler(())
    fmp = S.FakeMultiprocessing(sch)
    FakeSharedMemory.registry = {}
    BANE.multiprocessing = fmp
    BANE.SharedMemory = FakeSharedMemory
    aegean_verif_hooks.handler = None
    try:
        try:
            r = BANE.filter_image(im_name, out_base, **kw)
            return "ok", r
        except S.Deadlock as e:
            return "deadlock", str(e)
        except Exception as e:
            return "raised", e
    finally:
        BANE.multiprocessing = REAL_MP
        BANE.SharedMemory = REAL_SHM
