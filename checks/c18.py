"""C18 Catalogues survive a write/read round trip in every readable format (E1, bounded-exhaustive).

Writer under test : AegeanTools.catalogs.save_catalog  (-> write_catalog / writeFITSTable / writeDB)
Reader under test : AegeanTools.catalogs.load_table + table_to_source_list for csv, tab, tex, vot, xml, fits
                    (all six are accepted by load_table); the sqlite output has no reader in AegeanTools and is
                    read back with the sqlite3 module.
Oracle            : identity - the expected value of every cell is the plain python value that was put into the
                    source object (kept in a dict that never passes through AegeanTools).
"""
import itertools
import os
import shutil
import sqlite3
import tempfile
import warnings

import numpy as np

from AegeanTools import catalogs
from AegeanTools.models import ComponentSource, IslandSource, SimpleSource
from mc import core

PROPERTY = "C18"
LEVEL = "exploration"
SHARDS = 16
RULE = ("catalogues = ALL sequences of length 1..2 (quick) / 1..3 (thorough) over 10 row archetypes (typical "
        "component; negative fluxes; NaN fields with the XX:XX:XX.XX strings Aegean writes for NaN coordinates; -1 "
        "error markers; 1e-30/1e+30 magnitudes; 2-character uuid; 48-character uuid; an IslandSource; a "
        "SimpleSource; a default-constructed ComponentSource with empty coordinate strings) x format "
        "{csv,tab,tex,vot,xml,fits,db} x prefix {None,'x'} x meta {None, dict}; plus catalogues of 500 (quick) / "
        "4000 (thorough) rows cycling through all archetypes, started at every archetype, in every format.  Order "
        "matters because column types/widths may be taken from the first row.  Every case writes >= 1 file and is "
        "non-trivial; distinct = distinct (sequence, format, prefix, meta).")
ASSUMPTIONS = ["a value read back from sqlite as NULL is accepted where NaN was written (sqlite cannot hold NaN)",
               "with a column prefix the check renames the columns of the table returned by load_table back to the "
               "bare names (presence of every prefixed name is checked first) and then calls table_to_source_list, "
               "which only knows the bare names",
               "full double precision = the value read back is bit-identical (shortest-repr text round trips exactly); single precision = relative error <= 2**-23",
               "a numpy `masked` element is not a NaN and not a string: it counts as 'not preserved'",
               "metadata content is not compared (the property only lists it as a configuration axis); the meta dict "
               "has string values like the one the aegean CLI builds",
               "numeric equality is by value (int -1 read back for a float -1.0 is accepted)"]

FORMATS = ["csv", "tab", "tex", "vot", "xml", "fits", "db"]
PREFIXES = [None, "x"]
METAS = [0, 1]
ARCH = ["typ", "neg", "nan", "m1", "ext", "ush", "ulo", "isl", "sim", "blank"]
ARCH_DOC = dict(typ="typical component", neg="component with negative fluxes/background/dec",
                nan="component as Aegean makes it on a WCS failure: NaN ra/dec/a/b/pa/int_flux/residuals, "
                    "ra_str = dec_str = 'XX:XX:XX.XX' (what dec2hms/dec2dms return for NaN), psf_* = int 0",
                m1="component with every err_* = -1 (err_ra/err_dec the int -1 as fitting.py sets them)",
                ext="component with 1e-30 / 1e+30 magnitudes", ush="component with a 2-character uuid",
                ulo="component with a 48-character uuid", isl="IslandSource", sim="SimpleSource",
                blank="default-constructed ComponentSource (all NaN, ra_str = dec_str = '')")
TYPE_OF = {a: "comp" for a in ARCH}
TYPE_OF["isl"] = "isle"
TYPE_OF["sim"] = "simp"
CLS = dict(comp=ComponentSource, isle=IslandSource, simp=SimpleSource)
DBTABLE = dict(comp="components", isle="islands", simp="simples")
META = {"PROGRAM": "Aegean", "PROGVER": "verif-(2026-10-03)", "FITSFILE": "image.fits",
        "RUN-AS": "aegean image.fits --table out.fits,out.db --island"}
F32_REL = 2.0 ** -23


def maxlen(tier):
    return 2 if tier == "quick" else 3


def nlarge(tier):
    return 500 if tier == "quick" else 4000


def axes(tier, seed):
    return dict(archetypes=ARCH_DOC, sequence_length="1..%d (all sequences)" % maxlen(tier), format=FORMATS,
                prefix=PREFIXES, meta=[None, META], large_rows=nlarge(tier),
                large_start="every archetype as first row, cycling through all 10", large_format=FORMATS)


def cases(tier, seed):
    for n in range(1, maxlen(tier) + 1):
        for seq in itertools.product(ARCH, repeat=n):
            for fmt in FORMATS:
                for prefix in PREFIXES:
                    for meta in METAS:
                        yield "roundtrip", dict(seq=list(seq), fmt=fmt, prefix=prefix, meta=meta)
    for start in range(len(ARCH)):
        for fmt in FORMATS:
            yield "large", dict(start=start, n=nlarge(tier), fmt=fmt)
    for first, second in itertools.permutations(range(len(OVERWRITE)), 2):
        for fmt in FORMATS:
            yield "overwrite", dict(first=first, second=second, fmt=fmt)


# ---------------------------------------------------------------------------
# the catalogue: plain python values (the oracle) and the AegeanTools objects made from them
SCALE = dict(ra=360.0, dec=90.0, background=1e-3, local_rms=1e-3, peak_flux=3.0, int_flux=5.0, err_ra=1e-5,
             err_dec=1e-5, err_peak_flux=1e-3, err_int_flux=1e-2, a=200.0, b=100.0, pa=90.0, err_a=3.0, err_b=2.0,
             err_pa=10.0, residual_mean=1e-4, residual_std=1e-3, psf_a=0.05, psf_b=0.04, psf_pa=90.0,
             peak_pixel=3.0, eta=1.2, max_angular_size=0.1, area=1e-3, beam_area=1e-5)
INT_FIELDS = ("island", "source", "flags", "components", "x_width", "y_width", "pixels")
STR_FIELDS = ("ra_str", "dec_str", "uuid")


def expected_row(arch, pos, seed):
    """(type tag, {column name: plain python value}) of the source at position pos"""
    ai = ARCH.index(arch)
    tag = TYPE_OF[arch]
    names = list(CLS[tag].names)
    rs = np.random.RandomState(1800 + ai)
    row = {}
    for k, n in enumerate(names):
        if n in INT_FIELDS or n in STR_FIELDS:
            continue
        v = float(rs.uniform(0.1, 1.0)) * SCALE.get(n, 1.0) * (1.0 + core.seed_shift(seed, k, 1e-3))
        row[n] = float(v)
    if "island" in names:
        row["island"] = 100 * (pos + 1) + ai
    if "source" in names:
        row["source"] = pos % 50
    row["flags"] = (ai * 11 + 1) % 128
    if tag == "isle":
        row.update(components=2 + pos % 5, x_width=7 + ai, y_width=5 + pos % 9, pixels=31 + pos % 100)
    if "ra_str" in names:
        row["ra_str"] = "%02d:%02d:56.78" % (ai, pos % 60)
        row["dec_str"] = "+%02d:%02d:01.23" % (ai, pos % 60)
    row["uuid"] = "%08x-c180-4000-8000-%012x" % (ai, pos)
    if arch == "neg":
        for n in ("peak_flux", "int_flux", "background", "residual_mean", "dec", "pa"):
            row[n] = -row[n]
        row["dec_str"] = "-" + row["dec_str"][1:]
    elif arch == "nan":
        for n in ("ra", "dec", "a", "b", "pa", "int_flux", "err_int_flux", "residual_mean", "residual_std"):
            row[n] = float("nan")
        for n in ("psf_a", "psf_b", "psf_pa"):      # source_finder assigns the int 0 when there is no local beam
            row[n] = 0
        row["ra_str"] = "XX:XX:XX.XX"
        row["dec_str"] = "XX:XX:XX.XX"
    elif arch == "m1":
        for n in names:
            if n.startswith("err_"):
                row[n] = -1.0
        row["err_ra"] = -1
        row["err_dec"] = -1
    elif arch == "ext":
        for n, v in (("peak_flux", 1e+30), ("int_flux", 1e-30), ("err_peak_flux", 1e-30), ("err_int_flux", 1e+30),
                     ("background", -1e-30), ("a", 1e+30), ("psf_a", 1e-30), ("residual_std", 1e+30)):
            row[n] = v * (1.0 + row["b"] / 1000.0)
    elif arch == "ush":
        row["uuid"] = "u%d" % (pos % 10)
    elif arch == "ulo":
        row["uuid"] = "L%03d-" % (pos % 1000) + "0123456789abcdefghijklmnopqrstuvwxyzABCDEFG"
        assert len(row["uuid"]) == 48
    elif arch == "blank":
        for n in names:
            if n not in INT_FIELDS and n not in STR_FIELDS:
                row[n] = float("nan")
        row.update(island=0, source=0, flags=0, ra_str="", dec_str="")
    return tag, {n: row[n] for n in names}


def make_source(tag, row):
    s = CLS[tag]()
    for n, v in row.items():
        setattr(s, n, v)
    return s


def build(seq, seed):
    """-> (list of AegeanTools sources, {tag: [expected rows in catalogue order]})"""
    srcs, exp = [], {"comp": [], "isle": [], "simp": []}
    for pos, arch in enumerate(seq):
        tag, row = expected_row(arch, pos, seed)
        srcs.append(make_source(tag, row))
        exp[tag].append((arch, row))
    return srcs, exp


# ---------------------------------------------------------------------------
# comparison of one cell
def _is_masked(v):
    return v is np.ma.masked or isinstance(v, np.ma.core.MaskedConstant)


def kind_of(name):
    return "str" if name in STR_FIELDS else ("int" if name in INT_FIELDS else "float")


def cmp_cell(name, exp, got, fmt):
    """-> (violation class or None, relative error or None)"""
    kind = kind_of(name)
    isnan = isinstance(exp, float) and exp != exp
    if _is_masked(got):
        if isnan:
            return "nan_masked", None
        if kind == "str" and exp == "":
            return "emptystr_masked", None
        return "value_masked", None
    if kind == "str":
        who = "uuid" if name == "uuid" else "coordstr"
        if got is None:
            return "db_null", None
        if isinstance(got, bytes):
            return who + "_bytes", None
        if not isinstance(got, str):
            return who + "_type", None
        if str(got) == exp:
            return None, None
        if len(got) < len(exp) and exp.startswith(str(got)):
            return who + "_truncated", None
        return who + "_diff", None
    if kind == "int":
        if got is None:
            return "db_null", None
        if isinstance(got, (bool, np.bool_)) or not isinstance(got, (int, np.integer)):
            return "int_type", None
        return (None, None) if int(got) == exp else ("int_diff", None)
    # float-valued column (the value itself may be the int -1 or 0 that Aegean assigns)
    if isnan:
        if got is None and fmt == "db":
            return None, None
        if isinstance(got, (float, np.floating)) and got != got:
            return None, None
        return "nan_lost", None
    if got is None:
        return "db_null", None
    if isinstance(got, (bool, np.bool_, str, bytes)) or not isinstance(got, (int, float, np.integer, np.floating)):
        return "float_type", None
    g = float(got)
    if exp == -1:
        return (None, 0.0) if g == -1.0 else ("minus1_lost", None)
    if g != g or g in (float("inf"), float("-inf")):
        return "float_nonfinite", None
    err = abs(g - exp)
    rel = err / abs(exp) if exp != 0 else err
    if fmt == "fits":
        return (None, rel) if rel <= F32_REL else ("float32_precision", rel)
    return (None, rel) if err == 0.0 else ("double_precision", rel)


# ---------------------------------------------------------------------------
def read_table_format(path, tag, fmt, prefix, names):
    """rows read back with AegeanTools (load_table + table_to_source_list): list of dicts name -> value; raises what
    AegeanTools raises.  With a prefix the columns are renamed back to the bare names first (that is all a user can
    do: table_to_source_list only knows the bare names).  -> (rows, missing columns)"""
    t = catalogs.load_table(path)
    pre = "" if prefix is None else prefix + "_"
    missing = [n for n in names if pre + n not in t.colnames]
    if pre:
        for n in names:
            if pre + n in t.colnames and n not in t.colnames:
                t.rename_column(pre + n, n)
    rows = []
    for s in catalogs.table_to_source_list(t, src_type=CLS[tag]):
        rows.append({n: getattr(s, n) for n in names if n not in missing})
    if missing:
        missing = ["%s%s" % (pre, n) for n in missing[:3]] + ["... (the file has: %s ...)" % ",".join(t.colnames[:3])]
    return rows, missing


def read_db(path):
    """-> {table name: (column names, rows)}"""
    out = {}
    conn = sqlite3.connect(path)
    try:
        cur = conn.cursor()
        tabs = [r[0] for r in cur.execute("SELECT name FROM sqlite_master WHERE type='table'").fetchall()]
        for tn in tabs:
            cur.execute("SELECT * FROM %s ORDER BY rowid" % tn)
            cols = [d[0] for d in cur.description]
            out[tn] = (cols, cur.fetchall())
    finally:
        conn.close()
    return out


def roundtrip(seq_desc, srcs, exp, fmt, prefix, meta, ctx, sig_tail, before=None):
    """write with save_catalog, read back, compare; reports one violation per class found; returns
    {violation class: [descriptions]}"""
    scratch = os.environ.get("VERIF_SCRATCH") or ("/dev/shm" if os.path.isdir("/dev/shm") else tempfile.gettempdir())
    base = os.path.join(scratch, "c18_%d" % os.getpid())
    if os.path.isdir(base):
        shutil.rmtree(base, ignore_errors=True)
    os.makedirs(base)
    found = {}          # violation class -> list of short descriptions

    def bad(cls, text):
        found.setdefault(cls, []).append(text)

    try:
        fn = os.path.join(base, "cat." + fmt)
        if before is not None:      # history: another catalogue was written to the same name first
            try:
                with warnings.catch_warnings():
                    warnings.simplefilter("ignore")
                    catalogs.save_catalog(fn, before, meta=None, prefix=prefix)
            except Exception:
                pass
        try:
            with warnings.catch_warnings():
                warnings.simplefilter("ignore")
                catalogs.save_catalog(fn, srcs, meta=(dict(META) if meta else None), prefix=prefix)
        except Exception as e:
            first = {tag: rows[0][0] for tag, rows in exp.items() if rows}
            bad("raise_write", "save_catalog raised %s: %s (first row of each type: %r)" % (
                type(e).__name__, str(e)[:160], first))
        else:
            present = sorted(os.listdir(base))
            if fmt == "db":
                want_files = ["cat.db"]
            else:
                want_files = sorted("cat_%s.%s" % (tag, fmt) for tag, rows in exp.items() if rows)
            if before is not None and fmt != "db":
                # files of source types that only the EARLIER catalogue had are still on disk: not this call's business
                present = [f_ for f_ in present if f_ in want_files]
            if present != want_files:
                bad("file_split", "files written %r, documented %r" % (present, want_files))
            dbtabs = None
            if fmt == "db" and "cat.db" in present:
                try:
                    dbtabs = read_db(fn)
                except Exception as e:
                    bad("raise_read", "sqlite3 could not read the file: %r" % (e,))
                    dbtabs = None
                if dbtabs is not None:
                    want_t = sorted(DBTABLE[tag] for tag, rows in exp.items() if rows)
                    got_t = sorted(t for t in dbtabs if t in DBTABLE.values())
                    if want_t != got_t:
                        bad("file_split", "sqlite tables %r, expected %r" % (got_t, want_t))
            for tag in ("comp", "isle", "simp"):
                erows = exp[tag]
                if not erows:
                    continue
                names = list(CLS[tag].names)
                if fmt == "db":
                    if dbtabs is None or DBTABLE[tag] not in dbtabs:
                        continue
                    cols, raw = dbtabs[DBTABLE[tag]]
                    missing = [n for n in names if n not in cols]
                    rows = [{n: r[cols.index(n)] for n in names if n in cols} for r in raw]
                else:
                    path = os.path.join(base, "cat_%s.%s" % (tag, fmt))
                    if not os.path.exists(path):
                        continue
                    try:
                        with warnings.catch_warnings():
                            warnings.simplefilter("ignore")
                            rows, missing = read_table_format(path, tag, fmt, prefix, names)
                    except Exception as e:
                        bad("raise_read", "reading %s raised %s: %s" % (os.path.basename(path), type(e).__name__,
                                                                         str(e)[:160]))
                        continue
                ctx.count("tables_read")
                if missing:
                    bad("column_missing", "%s: columns absent: %s" % (tag, " ".join(missing[:4])))
                if len(rows) != len(erows):
                    bad("row_count", "%s: %d rows read back, %d written" % (tag, len(rows), len(erows)))
                    continue
                percol = {}
                for i, ((arch, erow), grow) in enumerate(zip(erows, rows)):
                    for n in names:
                        if n not in grow:
                            continue
                        ctx.count("cells_compared")
                        cls, rel = cmp_cell(n, erow[n], grow[n], fmt)
                        if rel is not None:
                            ctx.note_max("relerr_single_fits" if fmt == "fits" else "relerr_double_formats", rel)
                        if cls is not None:
                            percol.setdefault(cls, []).append((tag, i, arch, n, erow[n], grow[n]))
                for cls, items in percol.items():
                    tag_, i, arch, n, e, g = items[0]
                    colset = sorted(set(it[3] for it in items))
                    bad(cls, "%s row %d (%s, first row of the file is %s) column %s: wrote %r, read %s; columns "
                             "affected: %s" % (tag_, i, arch, erows[0][0], n, e, _short(g), ",".join(colset)))
    finally:
        shutil.rmtree(base, ignore_errors=True)
    for cls, texts in sorted(found.items()):
        ctx.violation("%s fmt=%s prefix=%r meta=%d: %s" % (seq_desc, fmt, prefix, meta, texts[0]),
                      "%s|fmt=%s %s" % (cls, fmt, sig_tail))
        ctx.outcome(cls + ":" + fmt)
    if not found:
        ctx.outcome("ok:" + fmt)
    return found


def _short(v):
    r = repr(v)
    return r if len(r) < 70 else r[:67] + "..."


def ev_roundtrip(case, ctx):
    seq, fmt, prefix, meta = case["seq"], case["fmt"], case["prefix"], case["meta"]
    ctx.count("roundtrip")
    srcs, exp = build(seq, ctx.seed)
    tail = "n=%04d prefix=%s meta=%d seq=%s" % (len(seq), prefix or "-", meta, "+".join(seq))
    ctx.nontrivial("%s %s" % (fmt, tail))
    roundtrip("catalogue [%s]" % ", ".join(seq), srcs, exp, fmt, prefix, meta, ctx, tail)


OVERWRITE = [["typ"], ["isl"], ["sim"], ["typ", "isl", "sim"], ["neg", "typ", "nan"]]


def ev_overwrite(case, ctx):
    """history: the same output name is written twice in one process, with catalogues of different source types"""
    import logging
    logging.getLogger("Aegean").setLevel(logging.ERROR)      # "overwriting <file>" warnings are expected here
    a, b, fmt = OVERWRITE[case["first"]], OVERWRITE[case["second"]], case["fmt"]
    ctx.count("overwrite")
    srcs_a, _ = build(a, ctx.seed)
    srcs_b, exp_b = build(b, ctx.seed)
    tail = "overwrite first=%s second=%s" % ("+".join(a), "+".join(b))
    ctx.nontrivial("%s %s" % (fmt, tail))
    roundtrip("catalogue [%s] written over [%s]" % (", ".join(b), ", ".join(a)), srcs_b, exp_b, fmt, None, 0, ctx, tail, before=srcs_a)


def ev_large(case, ctx):
    start, n, fmt = case["start"], case["n"], case["fmt"]
    ctx.count("large")
    seq = [ARCH[(start + i) % len(ARCH)] for i in range(n)]
    srcs, exp = build(seq, ctx.seed)
    tail = "n=%04d large start=%s" % (n, ARCH[start])
    ctx.nontrivial("%s %s" % (fmt, tail))
    roundtrip("catalogue of %d rows cycling the archetypes from %s" % (n, ARCH[start]), srcs, exp, fmt, None, 0,
              ctx, tail)


def evaluate(clause, case, ctx):
    if clause == "overwrite":
        return ev_overwrite(case, ctx)
    if clause == "roundtrip":
        ev_roundtrip(case, ctx)
    else:
        ev_large(case, ctx)
