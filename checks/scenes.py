"""Shared scene construction for the source-finder checks (C01, C03, C05, C11, C13, C14)."""
import logging
import os

import numpy as np
from astropy.io import fits

from mc.oracles import skygauss, sphere
from mc.oracles import wcs_zenithal as wz

logging.getLogger("Aegean").setLevel(logging.CRITICAL)


def write_image(path, hdr, data):
    h = wz.to_fits_header(hdr)
    fits.PrimaryHDU(data=np.asarray(data, dtype=np.float32), header=h).writeto(path, overwrite=True)


def finder():
    from AegeanTools.source_finder import SourceFinder
    log = logging.getLogger("verif_quiet")
    log.setLevel(logging.CRITICAL)
    log.addHandler(logging.NullHandler())
    log.propagate = False
    return SourceFinder(log=log)


def pa_diff(a, b):
    d = (a - b) % 180.0
    return min(d, 180.0 - d)


def sky_sep_pix(hdr, ra1, dec1, ra2, dec2):
    cd = abs(hdr["CDELT2"] if "CDELT2" in hdr else hdr["CD2_2"])
    return float(sphere.dist(ra1, dec1, ra2, dec2)) / cd


def src_dict(s):
    keys = ["island", "source", "ra", "dec", "peak_flux", "int_flux", "a", "b", "pa", "flags", "err_ra", "err_dec",
            "err_peak_flux", "err_int_flux", "err_a", "err_b", "err_pa", "background", "local_rms", "psf_a", "psf_b", "psf_pa",
            "residual_mean", "residual_std", "ra_str", "dec_str", "uuid"]
    return {k: getattr(s, k, None) for k in keys}


# ---------------------------------------------------------------------------------------------------------------
# scene alphabet: island archetypes placed on fixed slots
# ---------------------------------------------------------------------------------------------------------------
CD = 10.0 / 3600
BEAM_PX = (4.0, 3.0, 20.0)
SCENE_SHAPE = (128, 120)
SLOTS = [(40.0, 38.0), (88.0, 82.0), (38.0, 90.0)]
ARCHETYPES = ["point", "extended", "blend2", "blend3", "tiny", "small", "negative", "edge", "nanblock"]
RMS = 0.01


def scene_header(shape=SCENE_SHAPE, proj="SIN", crval=(215.0, -33.0)):
    return wz.make_header(proj, crval, CD, shape, beam=(BEAM_PX[0] * CD, BEAM_PX[1] * CD, BEAM_PX[2]))


def archetype_sources(name, hdr, slot, jitter=(0.0, 0.0)):
    """-> (list of source dicts, list of post-render edits)"""
    r0, c0 = slot[0] + jitter[0], slot[1] + jitter[1]
    S = lambda r, c, p, a, b, pa: skygauss.source_at_pixel(hdr, r, c, p, a, b, pa)
    if name == "point":
        return [S(r0 + 0.3, c0 - 0.2, 1.0, 4.0, 3.0, 20.0)], []
    if name == "extended":
        return [S(r0 - 0.4, c0 + 0.1, 0.8, 9.0, 5.0, -40.0)], []
    if name == "blend2":
        return [S(r0, c0, 1.0, 4.4, 3.2, 10.0), S(r0 + 4.5, c0 + 3.5, 0.7, 4.2, 3.1, 60.0)], []
    if name == "blend3":
        return [S(r0, c0, 1.0, 4.4, 3.2, 10.0), S(r0 + 5.0, c0 + 2.0, 0.8, 4.2, 3.1, 60.0), S(r0 + 1.0, c0 + 6.0, 0.6, 4.6, 3.3, -30.0)], []
    if name == "tiny":
        return [], [("spike", int(r0), int(c0), 0.09)]
    if name == "small":
        return [S(r0 + 0.1, c0 + 0.2, 0.058, 4.0, 3.0, 20.0)], []
    if name == "negative":
        return [S(r0 - 0.2, c0 + 0.4, -1.0, 5.0, 3.5, 70.0)], []
    if name == "edge":
        return [S(1.2, c0, 0.9, 4.5, 3.2, 0.0)], []
    if name == "nanblock":
        return [S(r0, c0, 1.0, 6.0, 4.0, 45.0)], [("nan", int(r0) + 1, int(r0) + 4, int(c0) - 6, int(c0) + 7)]
    raise ValueError(name)


def build_scene(names, hdr=None, shape=SCENE_SHAPE, jitter=(0.0, 0.0)):
    hdr = hdr or scene_header(shape)
    srcs, edits = [], []
    for name, slot in zip(names, SLOTS):
        s, e = archetype_sources(name, hdr, slot, jitter)
        srcs += s
        edits += e
    img = skygauss.render(hdr, shape, srcs)
    for e in edits:
        if e[0] == "spike":
            img[e[1], e[2]] += e[3]
        elif e[0] == "nan":
            img[e[1]:e[2], e[3]:e[4]] = np.nan
    return hdr, img, srcs


def grid_scene(n_side, shape, hdr=None, spacing=None):
    """n_side x n_side isolated sources"""
    hdr = hdr or scene_header(shape)
    sp = spacing or (shape[0] / (n_side + 0.5))
    srcs = []
    k = 0
    for i in range(n_side):
        for j in range(n_side):
            srcs.append(skygauss.source_at_pixel(hdr, (i + 0.75) * sp + 0.13 * (k % 5), (j + 0.75) * sp * shape[1] / shape[0] + 0.21 * (k % 3),
                                                 0.5 + 0.01 * k, 4.0 + 0.2 * (k % 4), 3.0 + 0.1 * (k % 3), -80.0 + 7.0 * k % 170))
            k += 1
    return hdr, skygauss.render(hdr, shape, srcs), srcs
