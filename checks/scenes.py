"""Shared scene construction for the source-finder checks (C01, C03, C05, C11, C13, C14)."""
import logging
import os

import numpy as np
from astropy.io import fits

from mc.oracles import skygauss, sphere
from mc.oracles import wcs_zenithal as wz

logging.getLogger("Aegean").setLevel(logging.CRITICAL)


def write_image(path, hdr, data):
    h = wz.to_fits_header(hdr)
    fits.PrimaryHDU(data=np.asarray(data, dtype=np.float32), header=h).writeto(path, overwrite=True)


def finder():
    from AegeanTools.source_finder import SourceFinder
    log = logging.getLogger("verif_quiet")
    log.setLevel(logging.CRITICAL)
    log.addHandler(logging.NullHandler())
    log.propagate = False
    return SourceFinder(log=log)


def pa_diff(a, b):
    d = (a - b) % 180.0
    return min(d, 180.0 - d)


def sky_sep_pix(hdr, ra1, dec1, ra2, dec2):
    cd = abs(hdr["CDELT2"] if "CDELT2" in hdr else hdr["CD2_2"])
    return float(sphere.dist(ra1, dec1, ra2, dec2)) / cd


def src_dict(s):
    keys = ["island", "source", "ra", "dec", "peak_flux", "int_flux", "a", "b", "pa", "flags", "err_ra", "err_dec",
            "err_peak_flux", "err_int_flux", "err_a", "err_b", "err_pa", "background", "local_rms", "psf_a", "psf_b", "psf_pa",
            "residual_mean", "residual_std", "ra_str", "dec_str", "uuid"]
    return {k: getattr(s, k, None) for k in keys}
