"""C20 Image bands tile the image exactly and keep its astrometry (E1, bounded-exhaustive)."""
import os

import numpy as np
from astropy.io import fits

from AegeanTools import fits_tools
from AegeanTools.exceptions import AegeanError
from mc import core
from mc.oracles import wcs_zenithal as wz

PROPERTY = "C20"
LEVEL = "exploration"
SHARDS = 16
RULE = ("every (rows, n, i) with rows in the listed range, n in 1..64 and every band i < n on images whose pixel "
        "value is its row number; input kinds 2-D/3-D/4-D/BSCALE float/BSCALE int16/compressed on a slice of "
        "row counts; invalid specs; histories: one path rewritten with another image (2-D, cube, compressed; other size) between "
        "loads of one process, every ordered pair of six images (A, B, A); non-trivial = a (rows, n) pair with n >= 2 (more than one band); distinct = "
        "distinct (kind, rows, n)")
ASSUMPTIONS = ["the 'full image' is what astropy returns for the file (physical values, BSCALE applied); for a "
               "compressed file it is fits_tools.expand of the file",
               "sky positions of band pixels are compared through the independent zenithal WCS model at the four "
               "band corners and the centre (rotation-free headers only)"]

QUICK_ROWS = list(range(1, 121))
THOROUGH_ROWS = list(range(1, 401)) + [1000, 4096, 4097, 9973, 19999, 20000]
KIND_ROWS = [1, 2, 3, 4, 5, 6, 7, 9, 10, 11, 13, 16, 17, 23, 31, 32, 33, 47, 49, 50, 63, 64, 65, 77, 98, 99, 100,
             101, 107, 113, 127, 128, 129, 150, 199, 200, 211, 255, 256, 257]
KINDS = ["3d", "4d", "bscale_float", "bscale_int16", "compressed"]
NMAX = 64


def axes(tier, seed):
    return dict(rows=(QUICK_ROWS if tier == "quick" else "1..400 + [1000,4096,4097,9973,19999,20000]"),
                n="1..64", band="every i < n", kinds=KINDS, kind_rows=KIND_ROWS if tier != "quick" else KIND_ROWS[::2],
                kind_n=[1, 2, 3, 5, 7, 8, 16, 49, 64])


def cases(tier, seed):
    rows = QUICK_ROWS if tier == "quick" else THOROUGH_ROWS
    for r in rows:
        yield "tiling_2d", dict(rows=r)
    krows = KIND_ROWS[::2] if tier == "quick" else KIND_ROWS
    for k in KINDS:
        for r in krows:
            yield "kinds", dict(kind=k, rows=r)
    yield "invalid", dict()
    # histories: ONE path rewritten with another image between loads of one process; every ordered pair of HIST
    for a in range(len(HIST)):
        yield "history", dict(first=a)


def _header(rows, cols, seed):
    # 30 arcsec pixels, smaller for very tall images so that every row stays on the visible hemisphere of the projection
    return wz.make_header("SIN", (150.0 + core.seed_shift(seed, 1, 20), -35.0), min(30.0 / 3600, 60.0 / rows), (rows, cols),
                          crpix=(cols / 2.0 + 0.5, rows / 3.0 + 0.25))


def _write(path, data, hdr, **extra):
    h = wz.to_fits_header(hdr)
    for k, v in extra.items():
        h[k] = v
    hdu = fits.PrimaryHDU(data=data, header=h)
    hdu.writeto(path, overwrite=True)


def _check_bands(fname, full, full_hdr, ctx, tag, ns, cube_index=0):
    """full: 2-D array the bands must tile; full_hdr: dict-like header of the full image"""
    rows = full.shape[0]
    for n in ns:
        got_rows = []
        ok = True
        for i in range(n):
            ctx.count("band_load")
            sig = "%s|rows=%d,n=%d" % (tag, rows, n)
            try:
                data, hdr = fits_tools.load_image_band(fname, band=(i, n), cube_index=cube_index)
            except Exception as e:
                ctx.violation("load_image_band(rows=%d, band=(%d,%d)) raised %r" % (rows, i, n, e), "raise_" + sig)
                ok = False
                break
            data = np.asarray(data)
            if data.ndim != 2 or data.shape[1] != full.shape[1]:
                ctx.violation("band (%d,%d) of rows=%d has shape %r" % (i, n, rows, data.shape), "shape_" + sig)
                ok = False
                break
            start = sum(got_rows)
            got_rows.append(data.shape[0])
            # values = the corresponding rows of the full image (consecutive, starting where the last band ended)
            exp = full[start:start + data.shape[0]]
            if exp.shape != data.shape or not np.array_equal(np.asarray(data, dtype=np.float64),
                                                             np.asarray(exp, dtype=np.float64), equal_nan=True):
                ctx.violation("band (%d,%d) of rows=%d does not hold rows %d..%d of the image (first col %r...)" % (
                    i, n, rows, start, start + data.shape[0], np.asarray(data)[:3, 0].tolist()), "values_" + sig)
                ok = False
                break
            if data.shape[0] == 0:
                continue
            if int(hdr["NAXIS2"]) != data.shape[0]:
                ctx.violation("band (%d,%d) of rows=%d: header NAXIS2=%r but %d rows" % (
                    i, n, rows, hdr["NAXIS2"], data.shape[0]), "naxis2_" + sig)
                ok = False
                break
            # astrometry: band pixel (p1, p2) must map to the sky position of full pixel (p1, p2 + start)
            p1 = np.array([1.0, full.shape[1], 1.0, full.shape[1], (full.shape[1] + 1) / 2.0])
            p2 = np.array([1.0, 1.0, data.shape[0], data.shape[0], (data.shape[0] + 1) / 2.0])
            ra_b, dec_b = wz.pix2sky(hdr, p1, p2)
            ra_f, dec_f = wz.pix2sky(full_hdr, p1, p2 + start)
            err = max(np.max(np.abs(((ra_b - ra_f + 180) % 360) - 180) * np.cos(np.radians(dec_f))),
                      np.max(np.abs(dec_b - dec_f)))
            ctx.note_max("band_sky_err_deg", err)
            if not np.all(np.isfinite(ra_f)):
                raise AssertionError("harness: the reference WCS gives no sky position for a pixel of the full image (rows=%d)" % rows)
            if not err < 1e-9:
                ctx.violation("band (%d,%d) of rows=%d: header maps its pixels %.3g deg away from the full image's" % (
                    i, n, rows, err), "wcs_" + sig)
                ok = False
                break
        if ok and sum(got_rows) != rows:
            ctx.violation("bands of (rows=%d, n=%d) cover %d rows: %r" % (rows, n, sum(got_rows), got_rows[:8]),
                          "cover_%s|rows=%d,n=%d" % (tag, rows, n))
            ok = False
        if n >= 2:
            ctx.nontrivial("%s,%d,%d" % (tag, rows, n))
        ctx.outcome("%s:%s" % (tag.split(":")[0], "ok" if ok else "bad"))


def ev_tiling_2d(case, ctx):
    rows = case["rows"]
    d = os.environ["VERIF_SCRATCH"]
    f = os.path.join(d, "t%d.fits" % rows)
    hdr = _header(rows, 2, ctx.seed)
    full = np.repeat(np.arange(rows, dtype=np.float32)[:, None], 2, axis=1)
    full[:, 1] += 0.5
    _write(f, full, hdr)
    _check_bands(f, full, hdr, ctx, "2d", range(1, NMAX + 1))
    os.remove(f)


def ev_kinds(case, ctx):
    kind, rows = case["kind"], case["rows"]
    d = os.environ["VERIF_SCRATCH"]
    f = os.path.join(d, "k_%s_%d.fits" % (kind, rows))
    ns = [1, 2, 3, 5, 7, 8, 16, 49, 64]
    cols = 6
    base = (np.arange(rows, dtype=np.float32)[:, None] * 4 + np.arange(cols, dtype=np.float32)[None, :] * 0.25)
    hdr = _header(rows, cols, ctx.seed)
    if kind == "3d":
        cube = np.stack([base + 1000 * k for k in range(3)])
        _write(f, cube, hdr)
        for ci in range(3):
            _check_bands(f, cube[ci], hdr, ctx, "3d", ns, cube_index=ci)
    elif kind == "4d":
        cube = np.stack([base + 1000 * k for k in range(2)])[None]
        _write(f, cube, hdr)
        for ci in range(2):
            _check_bands(f, cube[0, ci], hdr, ctx, "4d", ns, cube_index=ci)
    elif kind == "bscale_float":
        _write(f, base, hdr)
        with fits.open(f, mode="update", do_not_scale_image_data=True) as hl:
            hl[0].header["BSCALE"] = 0.5
        full = fits.getdata(f)
        assert np.allclose(full, base * 0.5)
        _check_bands(f, np.asarray(full, dtype=np.float64), hdr, ctx, "bscale_float", ns)
    elif kind == "bscale_int16":
        raw = np.asarray(base * 4, dtype=np.int16)
        hdu = fits.PrimaryHDU(data=raw, header=wz.to_fits_header(hdr))
        hdu.writeto(f, overwrite=True)
        with fits.open(f, mode="update", do_not_scale_image_data=True) as hl:
            hl[0].header["BSCALE"] = 0.25
        full = fits.getdata(f)
        assert np.allclose(full, raw * 0.25)
        _check_bands(f, np.asarray(full, dtype=np.float64), hdr, ctx, "bscale_int16", ns)
    elif kind == "compressed":
        if rows < 2:
            return
        _write(f, base, hdr)
        for factor in (2, 3):
            fc = f + ".c%d.fits" % factor
            try:
                fits_tools.compress(f, factor, outfile=fc)
                ex = fits_tools.expand(fc)
                full = np.array(ex[0].data)
                fh = dict(ex[0].header)
            except Exception as e:
                ctx.violation("compressed file (rows=%d, factor=%d) cannot be expanded: %r" % (rows, factor, e),
                              "compressed_raise|rows=%d,f=%d" % (rows, factor))
                continue
            if full.shape != base.shape:
                ctx.violation("expand of compressed (rows=%d, factor=%d) has shape %r" % (rows, factor, full.shape),
                              "compressed_shape|rows=%d,f=%d" % (rows, factor))
                continue
            _check_bands(fc, full, fh, ctx, "compressed", ns)
            os.remove(fc)
    if os.path.exists(f):
        os.remove(f)


HIST = [("2d", 12), ("2d", 30), ("compressed", 12), ("compressed", 31), ("3d", 12), ("2d", 5)]


def ev_history(case, ctx):
    d = os.environ["VERIF_SCRATCH"]
    f = os.path.join(d, "hist.fits")
    cols = 6

    def put(kind, rows):
        """(re)write f; returns (full image the bands must tile, its header, cube_index)"""
        base = (np.arange(rows, dtype=np.float32)[:, None] * 4 + np.arange(cols, dtype=np.float32)[None, :] * 0.25) + rows
        hdr = _header(rows, cols, ctx.seed)
        if kind == "3d":
            _write(f, np.stack([base, base + 1000]), hdr)
            return base + 1000, hdr, 1
        if kind == "2d":
            _write(f, base, hdr)
            return base, hdr, 0
        tmp = f + ".full.fits"
        _write(tmp, base, hdr)
        fits_tools.compress(tmp, 2, outfile=f)
        os.remove(tmp)
        ex = fits_tools.expand(fits.open(f))
        return np.array(ex[0].data), dict(ex[0].header), 0
    a = case["first"]
    for b in range(len(HIST)):
        if b == a:
            continue
        for step, k in enumerate((a, b, a)):
            kind, rows = HIST[k]
            tag = "history:%s%d_then_%s%d,step%d" % (HIST[a] + HIST[b] + (step,))
            try:
                full, fh, ci = put(kind, rows)
            except Exception as e:
                ctx.violation("writing %s image raised %r (%s)" % (kind, e, tag), "history_raise|" + tag)
                continue
            _check_bands(f, full, fh, ctx, tag, [1, 3, 4], cube_index=ci)
    if os.path.exists(f):
        os.remove(f)


def ev_invalid(case, ctx):
    d = os.environ["VERIF_SCRATCH"]
    f = os.path.join(d, "inv.fits")
    _write(f, np.zeros((10, 4), dtype=np.float32), _header(10, 4, ctx.seed))
    for band in [(-1, 1), (-1, 4), (-5, 4), (1, 1), (4, 4), (5, 4), (64, 4), (0, 0), (0, -1), (3, -2), (-1, 0), (2, 0)]:
        ctx.count("invalid_spec")
        ctx.nontrivial("inv%r" % (band,))
        try:
            fits_tools.load_image_band(f, band=band)
        except AegeanError:
            ctx.outcome("invalid:AegeanError")
            continue
        except Exception as e:
            ctx.outcome("invalid:other")
            ctx.violation("band=%r raised %r instead of AegeanError" % (band, e), "invalid|band=%r" % (band,))
            continue
        ctx.violation("band=%r was accepted" % (band,), "invalid|band=%r" % (band,))
    os.remove(f)


CLAUSES = dict(history=ev_history, tiling_2d=ev_tiling_2d, kinds=ev_kinds, invalid=ev_invalid)


def evaluate(clause, case, ctx):
    CLAUSES[clause](case, ctx)
