"""C09 Circle and polygon regions cover their shape and nothing far from it (E1, bounded-exhaustive)."""
import itertools

import healpy as hp
import numpy as np

from AegeanTools.regions import Region
from mc import core
from mc.oracles import hpset, sphere

PROPERTY = "C09"
LEVEL = "exploration"
SHARDS = 16
RULE = ("full product centre x radius x depth (circles) and centre x vertex count x circumradius x depth x winding "
        "(polygons); query points: EVERY pixel centre of the sphere at min(depth+1, 8) plus rings just inside the "
        "shape and just beyond the far limit, for scalar / list / array input and degrees / radians; non-trivial = "
        "at least one query point inside and one beyond the far limit; distinct = distinct (shape, depth)")
ASSUMPTIONS = ["distances by the longdouble vector formula; inside means d <= r(1-1e-9), far means d > r + 3*resol",
               "radius capped so a region has <= ~2e5 pixels (2 deg at depth 10, 0.5 deg at depth 12)",
               "polygon interior points are convex combinations of the vertices; far points lie beyond the "
               "circumscribed circle + 3 pixel sizes"]


def centres(seed):
    s = core.seed_shift(seed, 9, 0.7)
    return [(0.0, 0.0), (0.0, 90.0), (123.4, -90.0), (359.9999, 45.0), (0.0, -30.0 - s), (200.0 + s, 89.5), (77.0 + s, -12.3)]


RADII = [0.01, 0.5, 5.0, 60.0]
DEPTHS_Q = [3, 5, 7, 10, 12]
NGON = [3, 4, 5, 6, 7, 8]


def axes(tier, seed):
    return dict(centres=centres(seed), radii_deg=RADII, depths=DEPTHS_Q if tier == "quick" else list(range(3, 13)),
                polygon_vertices=NGON, polygon_circumradius_deg=[0.7, 6.0, 25.0, "0.05-0.2 at depths 10-12"], winding=["ccw", "cw"],
                input_forms=["scalar", "list", "array"], degin=[True, False])


def cases(tier, seed):
    depths = DEPTHS_Q if tier == "quick" else list(range(3, 13))
    for ci, r, d in itertools.product(range(len(centres(seed))), RADII, depths):
        if d >= 12 and r > 0.5 or d >= 10 and r > 2.0 or d >= 9 and r > 5:
            continue
        yield "circle", dict(ci=ci, radius=r, depth=d)
    pd = [4, 6, 8] if tier == "quick" else [3, 4, 5, 6, 7, 8, 9]
    for ci, n, R, d, w in itertools.product(range(len(centres(seed))), NGON, [0.7, 6.0, 25.0], pd, ["ccw", "cw"]):
        if R < 3 * np.degrees(hp.nside2resol(2 ** d)):
            continue
        yield "polygon", dict(ci=ci, n=n, R=R, depth=d, winding=w)
    for pole in (1, -1):
        for d in (4, 7, 10):
            yield "polequery", dict(pole=pole, depth=d)
    for k in range(5):
        for r, d in ((0.5, 6), (5.0, 5), (0.3, 9)):
            yield "rabranch", dict(k=k, r=r, depth=d)
    for k in range(len(INT_CENTRES)):
        for d in (4, 8):
            yield "inttypes", dict(k=k, depth=d)
    # small polygons at the deepest levels (vertices a few arcmin apart)
    small = [(0.12, 12), (0.12, 11)] if tier == "quick" else [(0.05, 12), (0.12, 12), (0.12, 11), (0.2, 11), (0.2, 10)]
    for ci, n, (R, d), w in itertools.product(range(len(centres(seed))), NGON, small, ["ccw", "cw"]):
        yield "polygon", dict(ci=ci, n=n, R=R, depth=d, winding=w)


def query_points(depth, cra, cdec, limits):
    """all pixel centres at qd plus rings at the given distances (deg) from the centre"""
    qd = min(depth + 1, 8)
    ra, dec = hpset.centres(qd)
    ra, dec = np.degrees(ra), np.degrees(dec)
    rr, dd = [ra], [dec]
    bearings = np.arange(0, 360, 0.5) + 0.123
    for lim in limits:
        if 0 < lim < 180:
            a, b = sphere.destination(cra, cdec if abs(cdec) < 90 else np.sign(cdec) * 89.999999999, lim, bearings)
            rr.append(np.asarray(a, dtype=float))
            dd.append(np.asarray(b, dtype=float))
    return np.concatenate(rr), np.concatenate(dd)


def ask(reg, ra_deg, dec_deg, ctx, sig):
    """sky_within through every input form; all answers must agree"""
    a = np.asarray(reg.sky_within(ra_deg, dec_deg, degin=True), dtype=bool)
    b = np.asarray(reg.sky_within(np.radians(ra_deg), np.radians(dec_deg), degin=False), dtype=bool)
    c = np.asarray(reg.sky_within(list(ra_deg[:50]), list(dec_deg[:50]), degin=True), dtype=bool)
    s = np.array([bool(reg.sky_within(float(x), float(y), degin=True)[0]) for x, y in zip(ra_deg[:20], dec_deg[:20])])
    if not (np.array_equal(a, b) and np.array_equal(a[:50], c) and np.array_equal(a[:20], s)):
        ctx.violation("sky_within answers depend on the input form / units (%s)" % sig, "input_form|" + sig)
    return a


def ev_circle(case, ctx):
    cra, cdec = centres(ctx.seed)[case["ci"]]
    r, depth = case["radius"], case["depth"]
    resol = np.degrees(hp.nside2resol(2 ** depth))
    sig = "centre=(%g,%g),r=%g,depth=%d" % (cra, cdec, r, depth)
    ctx.count("circle")
    reg = Region(maxdepth=depth)
    form = case["ci"] % 3
    if form == 0:
        reg.add_circles(np.radians(cra), np.radians(cdec), np.radians(r))
    elif form == 1:
        reg.add_circles([np.radians(cra)], [np.radians(cdec)], [np.radians(r)])
    else:
        reg.add_circles(np.array([np.radians(cra)]), np.array([np.radians(cdec)]), np.array([np.radians(r)]))
    far = r + 3 * resol
    ra, dec = query_points(depth, cra, cdec, [r * 0.5, r * (1 - 1e-7), far * (1 + 1e-7) + 1e-9, min(far * 1.5, 179.0)])
    d = np.asarray(sphere.dist(cra, cdec, ra, dec), dtype=float)
    ans = ask(reg, ra, dec, ctx, sig)
    inside = d <= r * (1 - 1e-9)
    beyond = d > far
    if np.any(inside) and np.any(beyond):
        ctx.nontrivial(sig)
    ctx.outcome("in=%d" % min(int(np.sum(inside)), 1) + ",far=%d" % min(int(np.sum(beyond)), 1))
    miss = inside & ~ans
    if np.any(miss):
        w = np.where(miss)[0][0]
        ctx.violation("circle %s does not contain (%.8f, %.8f) at distance %.9g deg" % (sig, ra[w], dec[w], d[w]), "circle_miss|" + sig)
    extra = beyond & ans
    if np.any(extra):
        w = np.where(extra)[0][0]
        ctx.violation("circle %s contains (%.8f, %.8f) at distance %.9g deg > r+3 pixels = %.9g" % (sig, ra[w], dec[w], d[w], far),
                      "circle_far|" + sig)
    # area between the two caps
    cap = lambda x: 2 * np.pi * (1 - np.cos(np.radians(min(x, 180.0))))
    area = reg.get_area(degrees=False)
    if not (cap(r) * (1 - 1e-9) <= area <= cap(far) * (1 + 1e-9)):
        ctx.violation("circle %s has area %.9g sr outside [%.9g, %.9g]" % (sig, area, cap(r), cap(far)), "circle_area|" + sig)


def ev_polygon(case, ctx):
    cra, cdec = centres(ctx.seed)[case["ci"]]
    n, R, depth = case["n"], case["R"], case["depth"]
    resol = np.degrees(hp.nside2resol(2 ** depth))
    sig = "centre=(%g,%g),n=%d,R=%g,depth=%d,%s" % (cra, cdec, n, R, depth, case["winding"])
    ctx.count("polygon")
    c0dec = cdec if abs(cdec) < 90 else np.sign(cdec) * 89.9999
    bearings = (np.arange(n) * 360.0 / n + 17.0 + 5.0 * case["ci"]) % 360
    if case["n"] == 5:  # one irregular family
        bearings = (bearings + np.array([0, 9, -7, 11, -5])[:n]) % 360
    if case["winding"] == "cw":
        bearings = bearings[::-1]
    vra, vdec = sphere.destination(cra, c0dec, R, bearings)
    vra, vdec = np.asarray(vra, dtype=float), np.asarray(vdec, dtype=float)
    reg = Region(maxdepth=depth)
    try:
        reg.add_poly(list(zip(np.radians(vra), np.radians(vdec))))
    except Exception as e:
        ctx.violation("add_poly raised %r (%s)" % (e, sig), "poly_raise|" + sig)
        return
    # interior points: convex combinations of the vertex vectors
    V = np.asarray(sphere.vec(vra, vdec), dtype=float)
    cen = V.mean(axis=0)
    pts = [cen]
    for i in range(n):
        pts.append(0.1 * cen + 0.9 * V[i] * 0.999 + 0.001 * cen)
        pts.append(0.495 * V[i] + 0.495 * V[(i + 1) % n] + 0.01 * cen)
        pts.append(0.5 * cen + 0.3 * V[i] + 0.2 * V[(i + 2) % n])
    P = np.array(pts)
    P /= np.linalg.norm(P, axis=1)[:, None]
    ira = np.degrees(np.arctan2(P[:, 1], P[:, 0])) % 360
    idec = np.degrees(np.arcsin(np.clip(P[:, 2], -1, 1)))
    ans_in = ask(reg, ira, idec, ctx, sig)
    if not np.all(ans_in):
        w = np.where(~ans_in)[0][0]
        ctx.violation("polygon %s does not contain interior point (%.8f, %.8f)" % (sig, ira[w], idec[w]), "poly_miss|" + sig)
    far = R + 3 * resol
    ra, dec = query_points(depth, cra, c0dec, [far * (1 + 1e-7) + 1e-9, min(far * 1.5, 179.0)])
    d = np.asarray(sphere.dist(cra, c0dec, ra, dec), dtype=float)
    ans = np.asarray(reg.sky_within(ra, dec, degin=True), dtype=bool)
    beyond = d > far
    ctx.nontrivial(sig)
    extra = beyond & ans
    if np.any(extra):
        w = np.where(extra)[0][0]
        ctx.violation("polygon %s contains (%.8f, %.8f) at %.9g deg from its centre, circumradius+3 pixels = %.9g" % (
            sig, ra[w], dec[w], d[w], far), "poly_far|" + sig)
    ctx.outcome("poly_in=%d,far=%d" % (min(1, int(np.sum(ans_in))), min(1, int(np.sum(beyond)))))


def ev_polequery(case, ctx):
    """positions EXACTLY at a celestial pole (any right ascension) are ordinary positions: inside a region that covers the pole,
    outside one that does not; scalar and vector, radians and degrees"""
    depth = case["depth"]
    pole = case["pole"]
    sig = "polequery:pole=%+d,depth=%d" % (pole, depth)
    ctx.count("polequery")
    ctx.nontrivial(sig)
    covers = Region(maxdepth=depth)
    covers.add_circles(np.radians(123.4), np.radians(pole * 89.2), np.radians(2.0))         # contains the pole (0.8 deg away)
    at_pole = Region(maxdepth=depth)
    at_pole.add_circles(0.0, pole * np.pi / 2, np.radians(1.0))
    away = Region(maxdepth=depth)
    away.add_circles(np.radians(40.0), np.radians(pole * 80.0), np.radians(3.0))            # 10 deg from the pole
    for ra_deg in (0.0, 123.4, 359.9, 180.0):
        for nm, reg, want in (("circle around the pole", at_pole, True), ("circle containing the pole", covers, True), ("circle 10 deg away", away, False)):
            answers = {}
            try:
                answers["scalar rad"] = np.asarray(reg.sky_within(np.radians(ra_deg), pole * np.pi / 2), dtype=bool).tolist()
                answers["scalar deg"] = np.asarray(reg.sky_within(ra_deg, pole * 90.0, degin=True), dtype=bool).tolist()
                answers["vector deg"] = np.asarray(reg.sky_within([ra_deg, ra_deg + 1.0, 10.0], [pole * 90.0, pole * 90.0, pole * 80.0], degin=True), dtype=bool).tolist()[:2]
                answers["vector rad"] = np.asarray(reg.sky_within(np.radians([ra_deg, 10.0]), np.array([pole * np.pi / 2, pole * 1.3])), dtype=bool).tolist()[:1]
            except Exception as e:
                ctx.violation("sky_within at the pole raised %r (%s, %s)" % (e, nm, sig), "polequery_raise|%s,%s" % (sig, nm))
                continue
            bad = {k: v for k, v in answers.items() if any(x != want for x in v)}
            if bad:
                ctx.violation("sky_within(ra=%g, dec=%+d deg exactly) on a %s: %r, expected %s (%s)" % (ra_deg, pole * 90, nm, bad, want, sig),
                              "polequery|%s,%s,ra=%g" % (sig, nm, ra_deg))
    ctx.outcome("polequery")


def ev_rabranch(case, ctx):
    """right ascensions quoted on another branch (ra - 360, ra + 360, polygons written across the wrap as 359, 361 or -1, 1):
    the same places on the sky, hence the same regions"""
    depth = case["depth"]
    cra, cdec = [(0.0, 0.0), (359.9999, 45.0), (0.3, -20.0), (359.0, 10.0), (180.0, 30.0)][case["k"]]
    r = case["r"]
    sig = "rabranch:centre=(%g,%g),r=%g,depth=%d" % (cra, cdec, r, depth)
    ctx.count("rabranch")
    ctx.nontrivial(sig)
    ref = Region(maxdepth=depth)
    ref.add_circles(np.radians(cra), np.radians(cdec), np.radians(r))
    want = set(int(p) for p in ref.get_demoted())
    for shift in (-360.0, 360.0, -720.0):
        try:
            g = Region(maxdepth=depth)
            g.add_circles(np.radians(cra + shift), np.radians(cdec), np.radians(r))
            got = set(int(p) for p in g.get_demoted())
        except Exception as e:
            ctx.violation("add_circles at ra %g%+g deg raised %r (%s)" % (cra, shift, e, sig), "rabranch_raise|" + sig)
            continue
        if got != want:
            ctx.violation("a circle centred at ra = %g%+g deg is not the circle centred at ra = %g deg: %d pixels vs %d, %d in common (%s)" % (
                cra, shift, cra, len(got), len(want), len(got & want), sig), "rabranch_circle|%s,shift=%g" % (sig, shift))
        ans = np.asarray(ref.sky_within(cra + shift, cdec, degin=True), dtype=bool)
        if not ans.all():
            ctx.violation("sky_within at ra = %g%+g deg (the circle's own centre) answers %r (%s)" % (cra, shift, ans.tolist(), sig), "rabranch_query|%s,shift=%g" % (sig, shift))
    # polygon around the centre; vertices quoted (a) normalised, (b) in (-180, 180], (c) in [180, 540)
    vra, vdec = sphere.destination(cra, cdec, max(r, 3 * np.degrees(hp.nside2resol(2 ** depth))), np.array([20.0, 110.0, 200.0, 290.0]))
    vra, vdec = np.asarray(vra, dtype=float) % 360, np.asarray(vdec, dtype=float)
    forms = dict(normalised=vra, signed=np.where(vra > 180, vra - 360, vra), shifted=np.where(vra < 180, vra + 360, vra))
    sets = {}
    for nm, vv in forms.items():
        try:
            g = Region(maxdepth=depth)
            g.add_poly(list(zip(np.radians(vv), np.radians(vdec))))
            sets[nm] = set(int(p) for p in g.get_demoted())
        except Exception as e:
            ctx.violation("add_poly with %s right ascensions %r raised %r (%s)" % (nm, [round(float(x), 3) for x in vv], e, sig), "rabranch_raise|%s,%s" % (sig, nm))
    for nm in ("signed", "shifted"):
        if nm in sets and "normalised" in sets and sets[nm] != sets["normalised"]:
            ctx.violation("a polygon with vertices at ra %r is not the polygon with the same vertices at ra %r: %d vs %d pixels (%s)" % (
                [round(float(x), 3) for x in forms[nm]], [round(float(x), 3) for x in vra], len(sets[nm]), len(sets["normalised"]), sig), "rabranch_poly|%s,%s" % (sig, nm))
    ctx.outcome("rabranch")


INT_CENTRES = [(0, 0), (1, 0), (3, -1), (6, 1), (0, 1), (2, 0)]      # radians, whole numbers


def ev_inttypes(case, ctx):
    """whole-number coordinates (the origin!) handed over as Python ints / integer arrays mean the same as the floats"""
    depth = case["depth"]
    k = case["k"]
    ra_i, dec_i = INT_CENTRES[k]
    rad = 0.1
    sig = "inttypes:centre=(%d,%d)rad,depth=%d" % (ra_i, dec_i, depth)
    ctx.count("inttypes")
    ctx.nontrivial(sig)
    ref = Region(maxdepth=depth)
    ref.add_circles(float(ra_i), float(dec_i), rad)
    want = set(int(p) for p in ref.get_demoted())
    flav = dict(python_int=(ra_i, dec_i), int_list=([ra_i], [dec_i]), int64_array=(np.array([ra_i], dtype=np.int64), np.array([dec_i], dtype=np.int64)),
                int32_array=(np.array([ra_i], dtype=np.int32), np.array([dec_i], dtype=np.int32)))
    for fname, (a, b) in flav.items():
        try:
            r = Region(maxdepth=depth)
            r.add_circles(a, b, rad if fname == "python_int" else [rad])
            got = set(int(p) for p in r.get_demoted())
        except Exception as e:
            ctx.violation("add_circles with the centre given as %s raised %r (%s)" % (fname, e, sig), "int_raise|%s,%s" % (sig, fname))
            continue
        if got != want:
            ctx.violation("add_circles(%r, %r, 0.1 rad): the region built from %s coordinates has %d pixels, %d in common with the region built "
                          "from the same numbers as floats (%d pixels)" % (ra_i, dec_i, fname, len(got), len(got & want), len(want)), "int_build|%s,%s" % (sig, fname))
        # queries: the centre and a far point, asked with the same flavours
        try:
            ans_f = np.asarray(ref.sky_within(float(ra_i), float(dec_i)), dtype=bool)
            ans_i = np.asarray(ref.sky_within(a, b), dtype=bool)
            far_f = np.asarray(ref.sky_within(float(ra_i), float(-dec_i if dec_i else 1)), dtype=bool)
            far_i = np.asarray(ref.sky_within(a, (-dec_i if dec_i else 1) if fname == "python_int" else (np.asarray(b) * 0 + (-dec_i if dec_i else 1)).astype(np.asarray(b).dtype)), dtype=bool)
        except Exception as e:
            ctx.violation("sky_within with %s coordinates raised %r (%s)" % (fname, e, sig), "int_raise|%s,%s" % (sig, fname))
            continue
        if not (ans_f.all() and ans_i.all() and not far_f.any() and not far_i.any()):
            ctx.violation("sky_within at the circle's centre (%d, %d) rad: %r for floats, %r for %s; at a far point: %r / %r" % (
                ra_i, dec_i, ans_f.tolist(), ans_i.tolist(), fname, far_f.tolist(), far_i.tolist()), "int_query|%s,%s" % (sig, fname))
    # a polygon with whole-number vertices
    verts = [(0, 0), (1, 0), (1, 1)]
    try:
        pf = Region(maxdepth=min(depth, 6))
        pf.add_poly([(float(x), float(y)) for x, y in verts])
        pi_ = Region(maxdepth=min(depth, 6))
        pi_.add_poly(verts)
        if set(int(p) for p in pf.get_demoted()) != set(int(p) for p in pi_.get_demoted()):
            ctx.violation("add_poly with whole-number vertices given as ints builds another region than the same vertices as floats (%s)" % sig, "int_poly|" + sig)
    except Exception as e:
        ctx.violation("add_poly with integer vertices raised %r (%s)" % (e, sig), "int_raise|%s,poly" % sig)
    ctx.outcome("inttypes")


def evaluate(clause, case, ctx):
    dict(circle=ev_circle, polygon=ev_polygon, inttypes=ev_inttypes, rabranch=ev_rabranch, polequery=ev_polequery)[clause](case, ctx)
