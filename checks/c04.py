"""C04 Model derivatives and per-parameter 1-sigma errors are the true ones (E1, bounded-exhaustive)."""
import itertools

import lmfit
import numpy as np

from AegeanTools import fitting
from mc import core
from mc.oracles import gaussmodel as gm

PROPERTY = "C04"
LEVEL = "exploration"
SHARDS = 16
RULE = ("n=1: every component tuple of the parameter lattice x EVERY non-empty subset of free parameters (63) x pixel "
        "sets x (errs, B) variants; n=2: component pairs (all fields different, and pairs SHARING theta / theta+shape / all but "
        "the centre) x EVERY pair of subsets (64^2-1); n=3,4: structured subsets 4^n, also with one shape and theta for all "
        "components; non-trivial = at least one free parameter; distinct = distinct (components, free mask, pixel set, "
        "weights)")
ASSUMPTIONS = ["reference derivatives by complex step (h=1e-30) on an independent model with theta in degrees",
               "error clause evaluated only when the reference Fisher matrix has condition number < 1e10",
               "derivative tolerance 1e-9 of the column's largest reference value; error tolerance 1e-6 relative"]

AMPS = [1.0, -2.5, 0.3]
SHAPES = [(3.0, 2.0), (2.0, 3.5)]
THETAS = [0.0, 30.0, -75.0, 90.0, 135.0]
CENTRES = [(5.3, 6.1), (7.0, 4.5)]
GRID = (12, 12)


def comp_lattice(seed):
    dt = core.seed_shift(seed, 8, 5.0)
    out = []
    for amp, (sx, sy), th, (xo, yo) in itertools.product(AMPS, SHAPES, THETAS, CENTRES):
        out.append((amp, xo, yo, sx, sy, th + dt))
    return out


def lat_index(ai, si, ti, ci):
    """index into comp_lattice of (AMPS[ai], SHAPES[si], THETAS[ti], CENTRES[ci])"""
    return ((ai * len(SHAPES) + si) * len(THETAS) + ti) * len(CENTRES) + ci


def pixel_sets():
    full = np.ones(GRID, dtype=bool)
    masked = full.copy()
    masked[3:6, 4:9] = False
    masked[0, :] = False
    masked[:, 11] = False
    row = np.zeros(GRID, dtype=bool)
    row[6, :] = True
    return dict(full=full, nanmasked=masked, row=row)


def axes(tier, seed):
    return dict(amp=AMPS, sx_sy=SHAPES, theta=[t + core.seed_shift(seed, 8, 5.0) for t in THETAS], centre=CENTRES,
                grid=GRID, pixel_sets=list(pixel_sets()), weights=["none", "errs=0.01", "B=Bmatrix(Cmatrix)", "errs+B", "C", "errs=0.37 + C"],
                n_components=[1, 2] if tier == "quick" else [1, 2, 3, 4])


COV_SHAPES = [(1.6, 1.1), (2.4, 0.9), (1.3, 1.3)]
COV_THETAS = [0.0, 25.0, -60.0, 35.0, 90.0, 135.0]


def cases(tier, seed):
    # the noise covariance model itself: Cmatrix against the documented Gaussian correlation function, Bmatrix against
    # B B' = inv(C)
    for si, ti in itertools.product(range(len(COV_SHAPES)), range(len(COV_THETAS))):
        yield "covmodel", dict(shape=si, theta=ti)
    # very small and very large amplitudes (uJy sources in a Jy image): the errors are those of the same inverse Fisher matrix
    for amp, ti in itertools.product([2e-6, -1e-7, 3e5, 1e-9], [1, 2]):
        yield "scales", dict(amp=amp, ti=ti)
    lat = comp_lattice(seed)
    for ci in range(len(lat)):
        yield "n1", dict(ci=ci)
    # n = 2: pairs of (different) lattice tuples, all pairs of subsets
    pairs = [(0, 27), (13, 58), (31, 4), (45, 22), (8, 50), (59, 17)]
    # pairs that SHARE parameter values (psf-shaped or priorized components share shape and position angle): same theta
    # only; same theta and shape; same everything but the centre; same theta = 0 with swapped shape
    pairs += [(lat_index(0, 0, 1, 0), lat_index(1, 1, 1, 1)), (lat_index(0, 0, 2, 0), lat_index(2, 0, 2, 1)),
              (lat_index(0, 0, 3, 0), lat_index(0, 0, 3, 1)), (lat_index(1, 0, 0, 0), lat_index(0, 1, 0, 1))]
    if tier != "quick":
        pairs += [(2, 41), (19, 36), (55, 10), (24, 7), (38, 53), (12, 29)]
        pairs += [(lat_index(2, 1, 4, 1), lat_index(2, 1, 4, 0)), (lat_index(1, 1, 2, 0), lat_index(0, 0, 2, 1)),
                  (lat_index(0, 1, 1, 0), lat_index(1, 1, 0, 1)), (lat_index(2, 0, 0, 1), lat_index(2, 1, 3, 0))]
    for (a, b) in pairs:
        for m0 in range(64):
            yield "n2", dict(a=a, b=b, m0=m0)
    if tier != "quick":
        for n in (3, 4):
            for k, start in enumerate((0, 11, 23, 37)):
                yield "nk", dict(n=n, start=start)
                yield "nk", dict(n=n, start=start, share=True)


def mask_bits(m):
    return [bool((m >> k) & 1) for k in range(6)]


def make_params(comps, free):
    p = lmfit.Parameters()
    for i, c in enumerate(comps):
        for k, name in enumerate(gm.NAMES):
            p.add("c%d_%s" % (i, name), value=c[k], vary=free[i][k])
    p.add("components", value=len(comps), vary=False)
    return p


def weights(variant, x, y):
    n = len(x)
    errs = None
    B = None
    C = None
    if variant in ("errs", "errs+B"):
        errs = 0.01
    if variant == "errs+C":
        errs = 0.37
    if variant in ("B", "errs+B", "C", "errs+C"):
        Cm = fitting.Cmatrix(x, y, 1.6, 1.1, 25.0)
        B = fitting.Bmatrix(Cm)
        if variant in ("C", "errs+C"):
            C = Cm
    return errs, B, C


def check_one(comps, free, pset_name, pmask, variant, ctx, do_errors=True):
    nfree = sum(sum(f) for f in free)
    if nfree == 0:
        return
    x, y = np.where(pmask)
    sig = "n=%d,free=%s,pix=%s,w=%s,comps=%s" % (len(comps), "/".join("".join("1" if b else "0" for b in f) for f in free),
                                                  pset_name, variant, ";".join("%g,%g,%g,%g,%g,%.4g" % c for c in comps))
    ref = gm.derivatives(comps, free, x, y)
    pars = make_params(comps, free)
    ctx.count("jacobian")
    got = np.asarray(fitting.jacobian(pars, x, y))
    if got.shape != ref.shape:
        ctx.violation("jacobian shape %r, expected %r (%s)" % (got.shape, ref.shape, sig), "jac_shape|" + sig)
        return
    names = [(i, gm.NAMES[k]) for i in range(len(comps)) for k in range(6) if free[i][k]]
    scale = np.max(np.abs(ref), axis=1)
    err = np.max(np.abs(got - ref), axis=1)
    tol = 1e-9 * np.maximum(scale, 1e-300) + 1e-300
    for r in np.where(err > tol)[0]:
        ctx.violation("d model/d c%d_%s: analytic max|.|=%.6g vs true %.6g, max diff %.3g (ratio at peak %.6g) (%s)" % (
            names[r][0], names[r][1], np.max(np.abs(got[r])), scale[r], err[r],
            (got[r][np.argmax(np.abs(ref[r]))] / ref[r][np.argmax(np.abs(ref[r]))]) if scale[r] > 0 else np.nan, sig),
            "jac_%s|%s" % (names[r][1], sig))
    ctx.note_max("jac_rel_err", float(np.max(err / np.maximum(scale, 1e-300))) if np.all(scale > 0) else 0.0)
    # ---- lmfit wrapper -------------------------------------------------------
    errs, B, C = weights(variant, x, y)
    ctx.count("lmfit_jacobian")
    gotw = fitting.lmfit_jacobian(pars, x, y, errs=errs, B=B)
    refw = ref.copy()
    if errs is not None:
        refw = refw / errs
    if B is not None:
        refw = refw.dot(B)
    refw = refw.T
    if gotw.shape != refw.shape or np.max(np.abs(gotw - refw)) > 1e-9 * max(np.max(np.abs(refw)), 1e-300):
        ctx.violation("lmfit_jacobian differs from J/errs.B transposed (%s)" % sig, "lmfit_jac|" + sig)
    if not do_errors or pset_name == "row":
        return
    # ---- errors ----------------------------------------------------------------
    if C is not None:
        Jr = (ref / (errs if errs is not None else 1.0)).T
        fisher = Jr.T.dot(np.linalg.inv(C)).dot(Jr)
    else:
        fisher = refw.T.dot(refw)
    # the Fisher matrix is badly SCALED when amplitudes are tiny or huge (amp row ~ 1/rms^2, the others ~ amp^2/rms^2): invert
    # it after normalising its diagonal to one; only a matrix that is ill conditioned after that is left undecided
    sc_ = np.sqrt(np.diag(fisher)) if np.all(np.isfinite(fisher)) else np.array([np.nan])
    if not (np.all(np.isfinite(sc_)) and np.all(sc_ > 0)):
        ctx.outcome("errors:illconditioned")
        return
    fn_ = fisher / np.outer(sc_, sc_)
    if np.linalg.cond(fn_) > 1e10:
        ctx.outcome("errors:illconditioned")
        return
    ref_sig = np.sqrt(np.diag(np.linalg.inv(fn_))) / sc_
    data = np.where(pmask, 1.0, np.nan)
    ctx.count("covar_errors")
    keepB, keepC, keepD = (None if B is None else B.copy()), (None if C is None else C.copy()), data.copy()
    p2 = fitting.covar_errors(make_params(comps, free), data, errs=errs, B=B, C=C)
    for nm, was, now in (("B", keepB, B), ("C", keepC, C), ("data", keepD, data)):
        if was is not None and not np.array_equal(was, now, equal_nan=True):
            ctx.violation("covar_errors changed its caller's %s array in place (largest change %.4g): a second call with the same array "
                          "gets other errors (%s)" % (nm, float(np.nanmax(np.abs(np.asarray(now, dtype=float) - was))), sig), "arg_mutated_%s|%s" % (nm, sig))
            return
    k = 0
    bad = False
    for i in range(len(comps)):
        for kk, name in enumerate(gm.NAMES):
            if not free[i][kk]:
                continue
            se = p2["c%d_%s" % (i, name)].stderr
            if se is None or not np.isfinite(se) or abs(se - ref_sig[k]) > 1e-6 * ref_sig[k]:
                ctx.violation("stderr of c%d_%s = %r, sqrt(inv(Fisher))[%d] = %.8g (%s)" % (i, name, se, k, ref_sig[k], sig),
                              "err_%s|%s" % (name, sig))
                bad = True
            k += 1
    ctx.outcome("errors:%s" % ("bad" if bad else "ok"))


def ev_covmodel(case, ctx):
    sx, sy = COV_SHAPES[case["shape"]]
    th = COV_THETAS[case["theta"]] + core.seed_shift(ctx.seed, 9, 4.0)
    for pname, pm in pixel_sets().items():
        x, y = np.where(pm)
        sig = "cov:sx=%g,sy=%g,theta=%.4g,pix=%s" % (sx, sy, th, pname)
        ctx.count("covmodel")
        ctx.nontrivial(sig)
        C = np.asarray(fitting.Cmatrix(x, y, sx, sy, th))
        ref = np.vstack([gm.model([(1.0, float(i), float(j), sx, sy, th)], x.astype(float), y.astype(float)) for i, j in zip(x, y)])
        if C.shape != ref.shape or not np.max(np.abs(C - ref)) <= 1e-12:
            w = np.unravel_index(int(np.argmax(np.abs(C - ref))), ref.shape) if C.shape == ref.shape else None
            ctx.violation("Cmatrix(sx=%g, sy=%g, theta=%.4g) differs from the Gaussian correlation function by %.3g (pixels %r and %r: %.6g vs %.6g) (%s)" % (
                sx, sy, th, float(np.max(np.abs(C - ref))) if w else np.nan, (int(x[w[0]]), int(y[w[0]])) if w else None,
                (int(x[w[1]]), int(y[w[1]])) if w else None, C[w] if w else np.nan, ref[w] if w else np.nan, sig), "cmatrix|" + sig)
            ctx.outcome("cov:cmatrix_differs")
            continue
        B = np.asarray(fitting.Bmatrix(ref))
        # B B' = inv(C) where C is well conditioned (eigenvalues above Bmatrix's floor of 1e-9 of the largest)
        ev = np.linalg.eigvalsh(ref)
        if ev[0] > 1e-7 * ev[-1]:
            resid = float(np.max(np.abs(B.dot(B.T).dot(ref) - np.eye(len(x)))))
            ctx.note_max("bmatrix_residual", resid)
            if not resid <= 1e-6:
                ctx.violation("Bmatrix: B B' C differs from the identity by %.3g (%s)" % (resid, sig), "bmatrix|" + sig)
                ctx.outcome("cov:bmatrix_differs")
                continue
            ctx.outcome("cov:ok")
        else:
            ctx.outcome("cov:ok_C_illconditioned_B_not_judged")


VARIANTS = ["none", "errs", "B", "errs+B", "C", "errs+C"]


def ev_n1(case, ctx):
    lat = comp_lattice(ctx.seed)
    c = lat[case["ci"]]
    ps = pixel_sets()
    for m in range(1, 64):
        free = [mask_bits(m)]
        for pname, pm in ps.items():
            for v in (VARIANTS if pname != "row" else ["none"]):
                ctx.nontrivial_n(1)
                check_one([c], free, pname, pm, v, ctx)


def ev_scales(case, ctx):
    c = (case["amp"], 5.3, 6.1, 3.0, 2.0, THETAS[case["ti"]] + core.seed_shift(ctx.seed, 8, 5.0))
    ps = pixel_sets()
    for m in range(1, 64):
        free = [mask_bits(m)]
        for v in ("none", "B", "C", "errs+C"):
            ctx.nontrivial_n(1)
            check_one([c], free, "full", ps["full"], v, ctx)
    # two components of very different brightness
    c2 = (1.0, 7.0, 4.5, 2.0, 3.5, 10.0)
    for m in (63, 0b111110, 0b000111, 0b100001):
        ctx.nontrivial_n(1)
        check_one([c, c2], [mask_bits(m), mask_bits(63)], "full", ps["full"], "none", ctx)


def ev_n2(case, ctx):
    lat = comp_lattice(ctx.seed)
    a, b = lat[case["a"]], lat[case["b"]]
    # keep the two components apart so that the Fisher matrix is well conditioned
    b = (b[0], b[1] + (0.0 if abs(b[1] - a[1]) > 1 else 2.2), b[2], b[3], b[4], b[5])
    ps = pixel_sets()
    m0 = case["m0"]
    for m1 in range(64):
        if m0 == 0 and m1 == 0:
            continue
        free = [mask_bits(m0), mask_bits(m1)]
        v = VARIANTS[(m0 + m1) % len(VARIANTS)]
        pname = "full" if (m0 ^ m1) % 3 else "nanmasked"
        ctx.nontrivial_n(1)
        check_one([a, b], free, pname, ps[pname], v, ctx)


STRUCT = [0b111111, 0b000000, 0b000001, 0b000111]  # all free, none, amp only, amp+xo+yo


def ev_nk(case, ctx):
    lat = comp_lattice(ctx.seed)
    n = case["n"]
    ps = pixel_sets()
    comps = []
    for i in range(n):
        c = lat[(case["start"] + 7 * i) % len(lat)]
        comps.append((c[0], 2.5 + 2.4 * (i % 2) + 0.3 * i, 2.8 + 2.1 * (i // 2) + 0.2 * i, c[3] * 0.6, c[4] * 0.6, c[5]))
    if case.get("share"):       # psf-shaped components: one shape and position angle for all of them
        comps = [(c[0], c[1], c[2], comps[0][3], comps[0][4], comps[0][5]) for c in comps]
    for combo in itertools.product(range(4), repeat=n):
        free = [mask_bits(STRUCT[k]) for k in combo]
        if not any(any(f) for f in free):
            continue
        v = VARIANTS[sum(combo) % len(VARIANTS)]
        ctx.nontrivial_n(1)
        check_one(comps, free, "full", ps["full"], v, ctx)


def evaluate(clause, case, ctx):
    if clause == "covmodel":
        return ev_covmodel(case, ctx)
    if clause == "scales":
        return ev_scales(case, ctx)
    dict(n1=ev_n1, n2=ev_n2, nk=ev_nk)[clause](case, ctx)
