"""C11 Region-restricted finding = unrestricted finding filtered by island membership (E1, bounded-exhaustive)."""
import copy
import itertools
import os

import numpy as np

from AegeanTools import source_finder as sfm
from AegeanTools.regions import Region
from AegeanTools.wcs_helpers import WCSHelper
from checks import scenes
from mc import core
from mc.oracles import floodfill, hpset, skygauss, sphere
from mc.oracles import wcs_zenithal as wz

PROPERTY = "C11"
LEVEL = "exploration"
SHARDS = 16
RULE = ("island shape alphabet x EVERY integer offset of the island in a 7x7 window centred on a pixel of the region's "
        "edge (so each island is swept pixel by pixel from inside to outside, with unequal row/column offsets) x region "
        "kind x depth x WCS x (seed, flood); find_islands(region=) must equal the unrestricted result filtered by 'has an "
        "own pixel whose centre is in the region'; a slice through find_sources_in_image(mask=) and the aegean CLI; histories: "
        "one mask file rewritten between runs of one process, every ordered pair of five regions (A, B, A); "
        "non-trivial = placement where the island straddles the edge (some own pixels in, some out); distinct = case")
ASSUMPTIONS = ["pixel centre sky positions from the independent zenithal WCS model; membership = healpy ang2pix into the "
               "region's own deepest-level set",
               "cases whose verdict depends on a pixel centre within 1e-6 pixel of a HEALPix cell boundary are skipped (counted)",
               "components are matched by position because dropping islands renumbers the survivors"]

SHAPES = dict(blob=[(0, 0), (0, 1), (1, 0), (1, 1)],
              hbar=[(0, c) for c in range(6)],
              vbar=[(r, 0) for r in range(6)],
              L=[(0, 0), (1, 0), (2, 0), (3, 0), (3, 1), (3, 2), (3, 3)],
              diag=[(k, k) for k in range(5)],
              Ldot=[(0, 0), (1, 0), (2, 0), (3, 0), (3, 1), (3, 2), (3, 3), (1, 2)])   # a second island inside the L's box
IMG = (44, 52)
WCSS = [("SIN", (120.0, -40.0)), ("TAN", (0.02, 62.0)), ("SIN", (-1.5, 25.0))]      # the last: a header with NEGATIVE CRVAL1 (= 358.5)
SCALE = 0.05


def axes(tier, seed):
    return dict(shapes=list(SHAPES), offsets="(-3..3) x (-3..3)", region=["circle", "polygon"], depth=[8, 10] if tier == "quick" else [7, 8, 10, 11],
                wcs=WCSS, seed_flood=[(5, 4), (6, 3)], image=IMG, scale_deg=SCALE)


def cases(tier, seed):
    depths = [8, 10] if tier == "quick" else [7, 8, 10, 11]
    for shape, rk, depth, w, sf in itertools.product(SHAPES, ["circle", "polygon"], depths, range(len(WCSS)), [(5, 4), (6, 3)]):
        yield "islands", dict(shape=shape, region=rk, depth=depth, wcs=w, seed=sf[0], flood=sf[1])
    for k in range(12 if tier == "quick" else 60):
        yield "finder", dict(k=k)
    yield "cli", dict()
    yield "wholeimage", dict()
    for w in range(len(WCSS)):
        for size in (3, 7):
            yield "interior", dict(wcs=w, size=size)
    for k in range(len(WIDEF)):
        for depth in ([6, 9] if tier == "quick" else [5, 6, 7, 8, 9, 10]):
            yield "widefield", dict(k=k, depth=depth)
    # histories: one mask FILE rewritten between runs of one process; every ordered pair of HIST_REGIONS
    for first in range(len(HIST_REGIONS)):
        yield "history", dict(first=first)


def header(w, seed):
    proj, crval = WCSS[w]
    return wz.make_header(proj, (crval[0] + core.seed_shift(seed, 30, 0.01), crval[1]), SCALE, IMG, beam=(4 * SCALE, 3 * SCALE, 15.0))


def region_for(kind, depth, hdr):
    ra0, dec0 = wz.pix2sky(hdr, IMG[1] * 0.45, IMG[0] * 0.5)
    ra0, dec0 = float(ra0), float(dec0)
    reg = Region(maxdepth=depth)
    if kind == "circle":
        reg.add_circles(np.radians(ra0), np.radians(dec0), np.radians(0.5))
    else:
        vra, vdec = sphere.destination(ra0, dec0, 0.7, np.array([10.0, 100.0, 190.0, 280.0]))
        reg.add_poly(list(zip(np.radians(np.asarray(vra, dtype=float)), np.radians(np.asarray(vdec, dtype=float)))))
    return reg


def membership(hdr, reg):
    rows, cols = IMG
    ii, jj = np.mgrid[0:rows, 0:cols]
    model = np.fromiter((int(p) for p in copy.deepcopy(reg).get_demoted()), dtype=np.int64)
    d = reg.maxdepth

    def member(di, dj):
        ra, dec = wz.pix2sky(hdr, jj + 1.0 + dj, ii + 1.0 + di)
        return np.isin(hpset.pix_of(d, np.radians(ra), np.radians(dec)), model)
    base = member(0, 0)
    amb = np.zeros(IMG, dtype=bool)
    for di, dj in [(1e-6, 0), (-1e-6, 0), (0, 1e-6), (0, -1e-6)]:
        amb |= member(di, dj) != base
    return base, amb


def obs_islands(isl):
    out = set()
    for i in isl:
        (xmin, xmax), (ymin, ymax) = [tuple(int(v) for v in b) for b in i.bounding_box]
        rr, cc = np.where(~np.asarray(i.mask, dtype=bool))
        out.add(frozenset((int(r) + xmin, int(c) + ymin) for r, c in zip(rr, cc)))
    return out


def ev_islands(case, ctx):
    hdr = header(case["wcs"], ctx.seed)
    wcs = WCSHelper.from_header(wz.to_fits_header(hdr))
    reg = region_for(case["region"], case["depth"], hdr)
    inside, amb = membership(hdr, reg)
    # an edge pixel of the region where the edge runs diagonally: the inside pixel nearest to the 45-degree direction
    rows, cols = IMG
    cr, cc = rows * 0.5, cols * 0.45
    edge = [(r, c) for r in range(3, rows - 9) for c in range(3, cols - 9) if inside[r, c] and not inside[r - 1:r + 2, c - 1:c + 2].all()]
    if not edge:
        ctx.harness_errors.append(dict(clause="islands", case=case, tb="region has no edge inside the image"))
        return
    e = min(edge, key=lambda p: abs(np.degrees(np.arctan2(p[0] - cr, p[1] - cc)) - 40.0) + (0 if (p[0] > cr and p[1] > cc) else 1000))
    pts = SHAPES[case["shape"]]
    tag = "%s,%s,depth=%d,wcs=%d,seed=%g,flood=%g" % (case["shape"], case["region"], case["depth"], case["wcs"], case["seed"], case["flood"])
    far_inside = (int(cr), int(cc))       # a second island that is always wholly inside
    for dr, dc in itertools.product(range(-3, 4), range(-3, 4)):
        ctx.count("find_islands_region")
        im = np.zeros(IMG)
        own = [(e[0] + dr + p[0], e[1] + dc + p[1]) for p in pts]
        for p in own:
            im[p] = 8.0
        if case["shape"] == "Ldot":
            im[own[-1]] = 9.0
        im[far_inside] = 7.0
        im[far_inside[0], far_inside[1] + 1] = 7.0
        bkg = np.zeros(IMG)
        rms = np.ones(IMG)
        ref_all = floodfill.islands(im, bkg, rms, case["seed"], case["flood"])
        expect = set()
        ambiguous = False
        for pix, box in ref_all:
            ins = [inside[p] for p in pix]
            if any(amb[p] for p in pix) and not any(inside[p] and not amb[p] for p in pix):
                ambiguous = True
            if any(ins):
                expect.add(pix)
        sig = "%s,offset=(%d,%d)" % (tag, dr, dc)
        if ambiguous:
            ctx.count("ambiguous_skipped")
            continue
        strad = any(0 < sum(inside[p] for p in pix) < len(pix) for pix, box in ref_all)
        if strad:
            ctx.nontrivial(sig)
        try:
            got = obs_islands(sfm.find_islands(im.copy(), bkg, rms, seed_clip=case["seed"], flood_clip=case["flood"],
                                               region=copy.deepcopy(reg), wcs=wcs))
            unres = obs_islands(sfm.find_islands(im.copy(), bkg, rms, seed_clip=case["seed"], flood_clip=case["flood"]))
        except Exception as ex:
            ctx.violation("find_islands(region=) raised %r (%s)" % (ex, sig), "raise|" + sig)
            continue
        ctx.outcome("kept=%d/%d%s" % (len(expect), len(ref_all), ",straddle" if strad else ""))
        if unres != set(p for p, b in ref_all):
            continue   # C02's business
        if got != expect:
            lost = [sorted(p)[:3] for p in expect - got]
            extra = [sorted(p)[:3] for p in got - expect]
            ctx.violation("region-restricted islands differ from the filtered unrestricted run: lost %r, spurious %r (%d own pixels inside "
                          "for the swept island) (%s)" % (lost, extra, sum(inside[p] for p in own), sig), ("lost|" if lost else "spurious|") + sig)


def ev_finder(case, ctx):
    """full finder: sources straddling the edge; components of kept islands identical to the unrestricted run"""
    k = case["k"]
    d = os.environ["VERIF_SCRATCH"]
    w = k % len(WCSS)
    hdr = header(w, ctx.seed)
    depth = [8, 10, 11][k % 3]
    kind = ["circle", "polygon"][(k // 2) % 2]
    reg = region_for(kind, depth, hdr)
    inside, amb = membership(hdr, reg)
    rows, cols = IMG
    edge = [(r, c) for r in range(6, rows - 6) for c in range(6, cols - 6) if inside[r, c] and not inside[r - 1:r + 2, c - 1:c + 2].all()]
    rs = np.random.RandomState(100 + k)
    picks = [edge[i] for i in rs.choice(len(edge), size=2, replace=False)]
    srcs = []
    cr_, cc_ = rows * 0.5, cols * 0.45
    for n_, (r, c) in enumerate(picks):
        if n_ == 1 and k % 2 == 1:
            # push this one outwards so that its island ends up (mostly or wholly) outside the region
            v = np.array([r - cr_, c - cc_])
            v = v / max(np.hypot(*v), 1e-9) * (4.0 + (k % 5))
            r, c = float(np.clip(r + v[0], 6, rows - 7)), float(np.clip(c + v[1], 6, cols - 7))
        srcs.append(skygauss.source_at_pixel(hdr, r + rs.uniform(-2, 2), c + rs.uniform(-2, 2), rs.choice([1.0, 0.5]), 5.0 + 3 * rs.uniform(), 3.5, rs.uniform(-80, 80)))
    srcs.append(skygauss.source_at_pixel(hdr, rows * 0.5 + 1.3, cols * 0.45 - 0.6, 0.8, 4.5, 3.2, 20.0))      # inside
    srcs.append(skygauss.source_at_pixel(hdr, 4.0, cols - 5.0, 0.7, 4.2, 3.1, -30.0))                            # far outside
    img = skygauss.render(hdr, IMG, srcs)
    f = os.path.join(d, "c11.fits")
    fm = os.path.join(d, "c11.mim")
    scenes.write_image(f, hdr, img)
    reg.save(fm)
    sig = "finder:k=%d,%s,depth=%d,wcs=%d" % (k, kind, depth, w)
    ctx.count("finder_runs")
    try:
        un = scenes.finder().find_sources_in_image(f, rms=0.01, cores=1, docov=False, innerclip=5, outerclip=4)
        re_ = scenes.finder().find_sources_in_image(f, rms=0.01, cores=1, docov=False, innerclip=5, outerclip=4, mask=fm)
    except Exception as ex:
        ctx.violation("finder raised %r (%s)" % (ex, sig), "raise|" + sig)
        return
    im32 = np.asarray(img, dtype=np.float32).astype(float)
    ref = floodfill.islands(im32, np.zeros(IMG), np.full(IMG, 0.01), 5, 4)
    # island of every unrestricted component = the oracle island containing its nearest pixel
    keep = []
    for s in un:
        x, y = wz.sky2pix(hdr, s.ra, s.dec)
        r, c = int(round(float(y) - 1)), int(round(float(x) - 1))
        isl = [pix for pix, box in ref if (r, c) in pix]
        if not isl:
            ctx.violation("component at (%.5f, %.5f) lies on no detected pixel group (%s)" % (s.ra, s.dec, sig), "component_origin|" + sig)
            return
        if any(amb[p] for p in isl[0]) and not any(inside[p] and not amb[p] for p in isl[0]):
            ctx.count("ambiguous_skipped")
            return
        if any(inside[p] for p in isl[0]):
            keep.append(s)
    ctx.nontrivial(sig)
    ctx.outcome("finder kept=%d/%d" % (len(keep), len(un)))
    fields = ["ra", "dec", "peak_flux", "int_flux", "a", "b", "pa", "flags", "err_ra", "err_dec", "err_peak_flux", "err_a", "err_b", "err_pa",
              "local_rms", "background", "source"]
    key = lambda s: (round(s.ra, 7), round(s.dec, 7))
    a = sorted(keep, key=key)
    b = sorted(re_, key=key)
    if len(a) != len(b) or any(key(x) != key(y) for x, y in zip(a, b)):
        ctx.violation("restricted run returns %d components at %r, filtered unrestricted run %d at %r (%s)" % (
            len(b), [key(s) for s in b], len(a), [key(s) for s in a], sig), "finder_set|" + sig)
        return
    for x, y in zip(a, b):
        for fld in fields:
            vx, vy = getattr(x, fld), getattr(y, fld)
            if not (vx == vy or (isinstance(vx, float) and np.isnan(vx) and np.isnan(vy))):
                ctx.violation("field %s differs between restricted (%r) and unrestricted (%r) run (%s)" % (fld, vy, vx, sig), "finder_values|" + sig)
                return
    # island numbers: same order
    oa = [s.island for s in sorted(keep, key=lambda s: (s.island, s.source))]
    ob = [s.island for s in sorted(re_, key=lambda s: (s.island, s.source))]
    if [key(s) for s in sorted(keep, key=lambda s: (s.island, s.source))] != [key(s) for s in sorted(re_, key=lambda s: (s.island, s.source))]:
        ctx.violation("island order differs (%s)" % sig, "finder_order|" + sig)


def ev_wholeimage(case, ctx):
    """a region covering the whole image changes nothing"""
    d = os.environ["VERIF_SCRATCH"]
    for w in range(len(WCSS)):
        hdr = header(w, ctx.seed)
        reg = Region(maxdepth=6)
        ra0, dec0 = wz.pix2sky(hdr, IMG[1] / 2, IMG[0] / 2)
        reg.add_circles(np.radians(float(ra0)), np.radians(float(dec0)), np.radians(8.0))
        srcs = [skygauss.source_at_pixel(hdr, 10.3, 12.1, 1.0, 5.0, 3.5, 40.0), skygauss.source_at_pixel(hdr, 30.0, 40.5, -0.6, 4.5, 3.2, -20.0),
                skygauss.source_at_pixel(hdr, 1.0, 1.0, 0.5, 4.2, 3.1, 0.0)]
        f = os.path.join(d, "c11w.fits")
        scenes.write_image(f, hdr, skygauss.render(hdr, IMG, srcs))
        ctx.count("wholeimage")
        ctx.nontrivial("whole%d" % w)
        un = scenes.finder().find_sources_in_image(f, rms=0.01, cores=1, docov=False, nonegative=False)
        re_ = scenes.finder().find_sources_in_image(f, rms=0.01, cores=1, docov=False, nonegative=False, mask=reg)
        da = [{k: v for k, v in scenes.src_dict(s).items() if k != "uuid"} for s in un]
        db = [{k: v for k, v in scenes.src_dict(s).items() if k != "uuid"} for s in re_]
        if core.jdump(da) != core.jdump(db):
            ctx.violation("a region covering the whole image changes the catalogue: %d vs %d components (wcs %d)" % (len(db), len(da), w), "wholeimage|wcs=%d" % w)


def ev_interior(case, ctx):
    """a region much smaller than an island and lying wholly in its interior (one deep HEALPix cell under an interior pixel): the
    island has a pixel centre in the region and must be returned; a second island elsewhere must not"""
    hdr = header(case["wcs"], ctx.seed)
    wcs = WCSHelper.from_header(wz.to_fits_header(hdr))
    rows, cols = IMG
    size = case["size"]
    r0, c0 = 12, 15
    im = np.zeros(IMG)
    im[r0:r0 + size, c0:c0 + size] = 8.0
    im[rows - 8:rows - 5, cols - 9:cols - 6] = 9.0           # the other island
    bkg, rms = np.zeros(IMG), np.ones(IMG)
    block = frozenset((r, c) for r in range(r0, r0 + size) for c in range(c0, c0 + size))
    for (pr, pc) in [(r0 + size // 2, c0 + size // 2), (r0 + 1, c0 + 1), (r0 + size // 2, c0 + 1), (r0, c0)]:
        for depth in (12, 14):
            ctx.count("interior")
            sig = "interior:wcs=%d,size=%d,pixel=(%d,%d),depth=%d" % (case["wcs"], size, pr, pc, depth)
            ctx.nontrivial(sig)
            ra, dec = wz.pix2sky(hdr, pc + 1.0, pr + 1.0)
            reg = Region(maxdepth=depth)
            reg.add_pixels([int(hpset.pix_of(depth, np.radians(float(ra)), np.radians(float(dec))))], depth)
            try:
                got = obs_islands(sfm.find_islands(im.copy(), bkg, rms, seed_clip=5, flood_clip=4, region=copy.deepcopy(reg), wcs=wcs))
            except Exception as ex:
                ctx.violation("find_islands(region=) raised %r (%s)" % (ex, sig), "raise|" + sig)
                continue
            ctx.outcome("interior:%d" % len(got))
            if got != {block}:
                ctx.violation("region = the one depth-%d cell that holds the centre of pixel (%d, %d) of a %dx%d island: islands returned %r, expected exactly that island (%s)" % (
                    depth, pr, pc, size, size, [sorted(g)[:2] for g in got], sig), "interior|" + sig)


WIDEF = [("ZEA", "centre"), ("SIN", "centre"), ("ZEA", "off"), ("SIN", "off"), ("TAN", "off"), ("ARC", "centre"),
         ("SIN", "negra"), ("CAR", "dec+40"), ("CAR", "dec-55"), ("SFL", "dec+40"), ("MER", "dec+40"), ("SIN", "near"), ("ZEA", "near")]


def ev_widefield(case, ctx):
    """wide fields (15 x 30 degrees, image edges are strongly curved on the sky): a region that covers the whole image changes
    nothing, whatever its depth; islands sit next to the middle of every edge and in the corners"""
    d = os.environ["VERIF_SCRATCH"]
    proj, where = WIDEF[case["k"]]
    depth = case["depth"]
    sc = 0.1
    IMGW = (150, 300)
    rows, cols = IMGW
    spots = []
    # separate islands 3 and 7 pixels from every edge: at its middle, its quarter points and in between
    for off, fr in ((3.0, 0.5), (3.0, 0.25), (3.0, 0.75), (7.0, 0.4), (7.0, 0.62)):
        spots += [(off, cols * fr), (rows - 1 - off, cols * fr + 0.4), (rows * fr, off), (rows * fr - 0.3, cols - 1 - off)]
    spots += [(6.0, 6.0), (rows - 7.0, cols - 7.0), (rows / 2.0, cols / 2.0)]
    if where.startswith("dec"):
        # cylindrical and pseudo-cylindrical projections (no independent model of these exists here, and none is needed: the
        # whole-image clause is differential); the image sits 40 / 55 degrees from the reference latitude, blobs are drawn in
        # pixel space
        hdr = wz.make_header("SIN", (200.0 + core.seed_shift(ctx.seed, 32, 10.0), 0.0), sc, IMGW, beam=(4 * sc, 3 * sc, 15.0),
                             crpix=(cols / 2.0 + 0.5, rows / 2.0 + 0.5 - float(where[3:]) / sc))
        hdr["CTYPE1"], hdr["CTYPE2"] = "RA---" + proj, "DEC--" + proj
        ii, jj = np.mgrid[0:rows, 0:cols]
        img = np.zeros(IMGW)
        for j, (r, c) in enumerate(spots):
            img += (0.6 + 0.01 * j) * np.exp(-0.5 * (((ii - r) / 1.6) ** 2 + ((jj - c) / 1.4) ** 2))
    else:
        crpix = dict(centre=None, negra=None, off=(cols + 200.5, -125.25), near=(cols + 40.5, rows / 2.0))[where]
        hdr = wz.make_header(proj, ((200.0 if where != "negra" else -3.0) + core.seed_shift(ctx.seed, 32, 10.0), -30.0), sc, IMGW, beam=(4 * sc, 3 * sc, 15.0), **(dict(crpix=crpix) if crpix else {}))
        srcs = [skygauss.source_at_pixel(hdr, r, c, 0.6 + 0.01 * j, 4.5, 3.2, 20.0 * j - 80.0) for j, (r, c) in enumerate(spots)]
        img = skygauss.render(hdr, IMGW, srcs)
    f = os.path.join(d, "c11wf.fits")
    scenes.write_image(f, hdr, img)
    from astropy.wcs import WCS as _WCS
    ra0, dec0 = _WCS(wz.to_fits_header(hdr), naxis=2).all_pix2world([[cols / 2.0, rows / 2.0]], 1)[0]
    reg = Region(maxdepth=depth)
    reg.add_circles(np.radians(float(ra0)), np.radians(float(dec0)), np.radians(35.0))
    sig = "widefield:%s,crpix=%s,depth=%d" % (proj, where, depth)
    ctx.count("widefield")
    ctx.nontrivial(sig)
    try:
        un = scenes.finder().find_sources_in_image(f, rms=0.01, cores=1, docov=False, innerclip=5, outerclip=4)
        re_ = scenes.finder().find_sources_in_image(f, rms=0.01, cores=1, docov=False, innerclip=5, outerclip=4, mask=copy.deepcopy(reg))
    except Exception as ex:
        ctx.violation("finder raised %r (%s)" % (ex, sig), "raise|" + sig)
        return
    finally:
        if os.path.exists(f):
            os.remove(f)
    da = [{k: v for k, v in scenes.src_dict(s).items() if k != "uuid"} for s in un]
    db = [{k: v for k, v in scenes.src_dict(s).items() if k != "uuid"} for s in re_]
    ctx.outcome("widefield:n=%d" % len(un))
    ctx.note_max("widefield_components_minus_blobs", abs(len(un) - len(spots)))
    if core.jdump(da) != core.jdump(db):
        ctx.violation("a region covering the whole (wide) image changes the catalogue: %d components with the region, %d without (%s)" % (len(db), len(da), sig),
                      "widefield|" + sig)


HIST_REGIONS = ["circle8", "polygon10", "whole", "elsewhere", "small_circle11"]


def _hist_region(name, hdr):
    if name == "circle8":
        return region_for("circle", 8, hdr)
    if name == "polygon10":
        return region_for("polygon", 10, hdr)
    reg = Region(maxdepth=6 if name != "small_circle11" else 11)
    if name == "whole":
        ra0, dec0 = wz.pix2sky(hdr, IMG[1] / 2, IMG[0] / 2)
        reg.add_circles(np.radians(float(ra0)), np.radians(float(dec0)), np.radians(8.0))
    elif name == "elsewhere":
        ra0, dec0 = wz.pix2sky(hdr, IMG[1] / 2, IMG[0] / 2)
        reg.add_circles(np.radians((float(ra0) + 180.0) % 360), np.radians(-float(dec0)), np.radians(5.0))
    else:
        ra0, dec0 = wz.pix2sky(hdr, 41.0, 31.0)
        reg.add_circles(np.radians(float(ra0)), np.radians(float(dec0)), np.radians(0.2))
    return reg


def ev_history(case, ctx):
    """the mask named by a path is the file's CURRENT content: rewrite one mask file between runs in one process and
    compare every run with the run that is handed the same region as an object"""
    d = os.environ["VERIF_SCRATCH"]
    hdr = header(0, ctx.seed)
    srcs = [skygauss.source_at_pixel(hdr, 10.3, 12.1, 1.0, 5.0, 3.5, 40.0), skygauss.source_at_pixel(hdr, 30.0, 40.5, 0.6, 4.5, 3.2, -20.0),
            skygauss.source_at_pixel(hdr, 22.4, 23.2, 0.8, 4.5, 3.2, 20.0), skygauss.source_at_pixel(hdr, 4.0, IMG[1] - 5.0, 0.7, 4.2, 3.1, -30.0),
            skygauss.source_at_pixel(hdr, 36.2, 8.0, 0.5, 6.0, 3.1, 70.0)]
    f = os.path.join(d, "c11h.fits")
    fm = os.path.join(d, "c11h.mim")
    scenes.write_image(f, hdr, skygauss.render(hdr, IMG, srcs))
    regs = [_hist_region(n, hdr) for n in HIST_REGIONS]

    def run(mask):
        cat = scenes.finder().find_sources_in_image(f, rms=0.01, cores=1, docov=False, innerclip=5, outerclip=4, mask=mask)
        return core.jdump([{k: v for k, v in scenes.src_dict(s).items() if k != "uuid"} for s in cat]), len(cat)
    try:
        refs = [run(copy.deepcopy(r)) for r in regs]
        a = case["first"]
        for b in range(len(regs)):
            if b == a:
                continue
            for step, k in enumerate((a, b, a)):
                ctx.count("history_runs")
                sig = "history:%s_then_%s,step=%d" % (HIST_REGIONS[a], HIST_REGIONS[b], step)
                ctx.nontrivial(sig)
                regs[k].save(fm)
                got = run(fm)
                if got != refs[k]:
                    ctx.violation("mask file rewritten with region %r: the run finds %d components, the run handed that region as an object finds %d (%s)" % (
                        HIST_REGIONS[k], got[1], refs[k][1], sig), "history|" + sig)
                    ctx.outcome("history:stale")
                else:
                    ctx.outcome("history:n=%d" % got[1])
    except Exception as ex:
        ctx.violation("finder raised %r in a mask-file history (first=%s)" % (ex, HIST_REGIONS[case["first"]]), "raise|history:%d" % case["first"])
    finally:
        for p_ in (f, fm):
            if os.path.exists(p_):
                os.remove(p_)


def ev_cli(case, ctx):
    from AegeanTools.CLI import aegean as cli
    from AegeanTools import catalogs
    d = os.environ["VERIF_SCRATCH"]
    hdr = header(0, ctx.seed)
    reg = region_for("circle", 10, hdr)
    inside, amb = membership(hdr, reg)
    srcs = [skygauss.source_at_pixel(hdr, IMG[0] * 0.5 + 1.3, IMG[1] * 0.45 - 0.6, 0.8, 4.5, 3.2, 20.0),
            skygauss.source_at_pixel(hdr, 5.0, IMG[1] - 6.0, 0.7, 4.2, 3.1, -30.0)]
    f = os.path.join(d, "c11c.fits")
    fm = os.path.join(d, "c11c.mim")
    scenes.write_image(f, hdr, skygauss.render(hdr, IMG, srcs))
    reg.save(fm)
    ctx.count("cli")
    ctx.nontrivial("cli")
    res = {}
    import logging
    logging.disable(logging.CRITICAL)
    for name, extra in (("all", []), ("reg", ["--region", fm])):
        out = os.path.join(d, "c11c_%s.csv" % name)
        try:
            cli.main([f, "--forcerms", "0.01", "--forcebkg", "0", "--cores", "1", "--nocov", "--table", out] + extra)
            comp = out.replace(".csv", "_comp.csv")
            res[name] = len(catalogs.load_table(comp)) if os.path.exists(comp) else 0
        except SystemExit:
            res[name] = None
        except Exception as ex:
            ctx.violation("aegean CLI raised %r (%s)" % (ex, name), "cli_raise|" + name)
            return
    if res.get("all") != 2 or res.get("reg") != 1:
        ctx.violation("aegean CLI: %r components without / with --region, expected 2 / 1" % (res,), "cli_count|")
    # --autoload finds a sibling <image>.mim; a region named explicitly wins over it, and without --region the sibling is used
    sib = f.replace(".fits", ".mim")
    fm = os.path.join(d, "c11c_user.mim")       # the sibling name is <image>.mim: the user's region must live elsewhere
    reg.save(fm)
    elsewhere = Region(maxdepth=8)
    elsewhere.add_circles(np.radians(10.0), np.radians(70.0), np.radians(1.0))      # holds no island of this image
    for sib_reg, sib_name in ((elsewhere, "elsewhere"), (reg, "circle")):
        sib_reg.save(sib)
        for name, extra, want in (("autoload_only", ["--autoload"], 0 if sib_name == "elsewhere" else 1),
                                  ("autoload_and_region", ["--autoload", "--region", fm], 1),
                                  ("region_and_autoload", ["--region", fm, "--autoload"], 1)):
            ctx.count("cli")
            out = os.path.join(d, "c11c_%s.csv" % name)
            comp = out.replace(".csv", "_comp.csv")
            if os.path.exists(comp):
                os.remove(comp)
            try:
                cli.main([f, "--forcerms", "0.01", "--forcebkg", "0", "--cores", "1", "--nocov", "--table", out] + extra)
                got = len(catalogs.load_table(comp)) if os.path.exists(comp) else 0
            except SystemExit:
                got = None
            except Exception as ex:
                ctx.violation("aegean CLI raised %r (%s, sibling region %s)" % (ex, name, sib_name), "cli_raise|%s,%s" % (name, sib_name))
                continue
            if got != want:
                ctx.violation("aegean %s with a sibling .mim file holding the '%s' region: %r components, expected %d" % (" ".join(extra).replace(fm, "user.mim"), sib_name, got, want),
                              "cli_autoload|%s,%s" % (name, sib_name))
    for p_ in (sib, fm):
        if os.path.exists(p_):
            os.remove(p_)


def evaluate(clause, case, ctx):
    dict(islands=ev_islands, finder=ev_finder, cli=ev_cli, wholeimage=ev_wholeimage, history=ev_history, widefield=ev_widefield, interior=ev_interior)[clause](case, ctx)
