"""C16 Pixel<->sky conversion of positions, vectors and ellipses (E1, bounded-exhaustive)."""
import itertools

import numpy as np

from AegeanTools.wcs_helpers import WCSHelper
from mc import core
from mc.oracles import sphere
from mc.oracles import wcs_zenithal as wz

PROPERTY = "C16"
LEVEL = "exploration"
SHARDS = 16
RULE = ("histories: five helpers of different images alive at once, every ordered pair (A, B) asked in the order A B A with "
        "bit-identical sky / pixel arguments (helpers made up front or on first use); "
        "full product projection x CRVAL x pixel scale x pixel position x (ellipse size x axis ratio x angle); one "
        "case = one (projection, CRVAL, scale), all positions/ellipses looped inside; non-trivial = vector/ellipse "
        "cases with size > 0 (all); distinct = distinct (header, pixel, size, ratio, angle)")
ASSUMPTIONS = ["rotation-free square pixels; quick tier |CRVAL2| <= 85, thorough tier also CRVAL2 = +-90 (LONPOLE = the standard's default: 180, and 0 at +90); position angles are not judged at a pixel that is itself a pole",
               "reference: FITS Paper II zenithal formulas written independently (mc/oracles/wcs_zenithal.py) and "
               "longdouble vector great-circle distance / position angle",
               "minor axis reference: component of the minor-axis end point (gnomonic offsets about the centre) "
               "perpendicular to the major axis direction; agreement required to 1e-3 relative"]

PROJ = ["SIN", "TAN", "ZEA", "ARC", "STG"]
CRVALS = [(180.0, -45.0), (0.001, 10.0), (359.999, -85.0), (45.0, 80.0), (120.0, 0.0)]
CRVALS_T = CRVALS + [(10.0, 90.0), (200.0, -90.0), (0.0, 0.0), (270.0, 89.0), (359.9999, -30.0)]   # thorough: exact poles, origin, wrap
SCALES = [1.0, 10.0, 60.0]
SHAPE = (200, 300)  # rows, cols
SIZES = [1.0, 5.0, 20.0]
RATIOS = [1.0, 0.5, 0.997]      # 0.997: nearly circular, the pixel-space axes can swap order across the image
ANGLES = [-170.0, -45.0, 0.0, 30.0, 90.0, 180.0]


def pixels(seed):
    s = core.seed_shift(seed, 4, 0.9)
    t = core.seed_shift(seed, 5, 0.9)
    return [(1.0, 1.0), (70.0 + s, 200.0 + t), ((SHAPE[0] + 1) / 2.0, (SHAPE[1] + 1) / 2.0), (float(SHAPE[0]), float(SHAPE[1])),
            (1.0 + t, float(SHAPE[1]) - s)]


def axes(tier, seed):
    q = tier == "quick"
    return dict(projection=PROJ, crval=CRVALS if q else CRVALS_T, scale_arcsec=SCALES if q else [1.0, 3.0, 10.0, 30.0, 60.0],
                pixel_row_col=pixels(seed), size_px=SIZES if q else [1.0, 2.0, 5.0, 10.0, 20.0],
                ratio=RATIOS if q else [1.0, 0.8, 0.5, 0.2],
                angle_deg=[a + core.seed_shift(seed, 6, 3.0) for a in (ANGLES if q else [-180.0 + 15.0 * k for k in range(1, 25)])],
                image_shape=SHAPE)


def cases(tier, seed):
    scales = SCALES if tier == "quick" else [1.0, 3.0, 10.0, 30.0, 60.0]
    for proj, crval, sc in itertools.product(PROJ, CRVALS if tier == "quick" else CRVALS_T, scales):
        yield "conversions", dict(proj=proj, crval=list(crval), scale=sc)
    for proj, crval, sc in itertools.product(PROJ, CRVALS[:2], [10.0]):
        yield "argtypes", dict(proj=proj, crval=list(crval), scale=sc)
    for crval, sc, pv in itertools.product([(180.0, -45.0), (45.0, 80.0), (0.001, 30.0)], [10.0, 60.0], range(len(PVSIN))):
        yield "pvsin", dict(crval=list(crval), scale=sc, pv=pv)
    for crval, sc, k in itertools.product([(180.0, -45.0), (45.0, 80.0)], [10.0, 60.0], [1.0, 5.0]):
        yield "sip", dict(crval=list(crval), scale=sc, strength=k)
    for first in range(len(LIVE)):
        for upfront in (0, 1):
            yield "interleaved", dict(first=first, upfront=upfront)


LIVE = [("SIN", (30.0, -15.0), 10.0, None), ("TAN", (30.0, -15.0), 30.0, (40.5, 160.25)), ("ZEA", (30.0, -15.0), 5.0, (120.0, 33.0)),
        ("SIN", (30.2, -14.9), 10.0, None), ("STG", (359.98, 72.0), 20.0, (10.0, 250.0))]


PVSIN = [(0.0, 0.0), (0.1, -0.05), "ncp", (-0.02, 0.3)]


def ev_pvsin(case, ctx):
    """slant orthographic headers (SIN with PV2_1, PV2_2: interferometer images, NCP): the sky position of a pixel must be the
    one of the FITS standard - the forward formula of the independent model maps it back onto the pixel"""
    crval = tuple(case["crval"])
    sc = case["scale"]
    cd = sc / 3600.0
    pv = PVSIN[case["pv"]]
    hdr = wz.make_header("SIN", crval, cd, SHAPE, beam=(3 * cd, 2 * cd, 20.0))
    if pv == "ncp":
        pv = (0.0, 1.0 / np.tan(np.radians(crval[1])))
    hdr["PV2_1"], hdr["PV2_2"] = float(pv[0]), float(pv[1])
    wcs = WCSHelper.from_header(wz.to_fits_header(hdr))
    tag = "pvsin:crval=%r,scale=%g,pv=(%.4g,%.4g)" % (crval, sc, pv[0], pv[1])
    for (x, y) in [(100.0, 150.0), (1.0, 1.0), (200.0, 300.0), (37.25, 211.5), (180.0, 20.0), (5.0, 290.0)]:
        ctx.count("pvsin")
        sig = "%s,pix=%r" % (tag, (x, y))
        ctx.nontrivial(sig)
        ra, dec = wcs.pix2sky([x, y])
        ox, oy = wz.sky2pix(hdr, ra, dec)            # (column, row)
        err = float(np.hypot(ox - y, oy - x))
        ctx.note_max("pvsin_err_px", err)
        if not err < 1e-6:
            ctx.violation("pix2sky(%r) = (%.9f, %.9f); by the standard's slant-orthographic formula that position belongs to pixel (row %.6f, col %.6f): %.3g px off (%s)" % (
                (x, y), ra, dec, oy, ox, err, tag), "pvsin_pix2sky|" + sig)
        bx, by = wcs.sky2pix([ra, dec])
        if not np.hypot(bx - x, by - y) < 1e-6:
            ctx.violation("sky2pix(pix2sky(%r)) = (%.9f, %.9f) (%s)" % ((x, y), bx, by, tag), "pvsin_roundtrip|" + sig)
    ctx.outcome("pvsin")


def ev_sip(case, ctx):
    """headers with SIP distortion polynomials (TAN-SIP): no independent model of these exists here; the inverse clause needs
    none.  astropy inverts the distortion iteratively to 1e-4 pixel, so the round trip is judged at 1e-3 pixel here."""
    sc = case["scale"]
    cd = sc / 3600.0
    hdr = wz.make_header("TAN", tuple(case["crval"]), cd, SHAPE, beam=(3 * cd, 2 * cd, 20.0))
    hdr["CTYPE1"], hdr["CTYPE2"] = "RA---TAN-SIP", "DEC--TAN-SIP"
    k = case["strength"]
    hdr.update(A_ORDER=2, B_ORDER=2, A_2_0=2e-5 * k, A_0_2=-1e-5 * k, A_1_1=1.5e-5 * k, B_2_0=-1.2e-5 * k, B_0_2=2.5e-5 * k, B_1_1=-0.8e-5 * k)
    wcs = WCSHelper.from_header(wz.to_fits_header(hdr))
    tag = "sip:crval=%r,scale=%g,strength=%g" % (tuple(case["crval"]), sc, k)
    for (x, y) in [(100.0, 150.0), (1.0, 1.0), (200.0, 300.0), (37.25, 211.5), (180.0, 20.0), (5.0, 290.0)]:
        ctx.count("sip")
        sig = "%s,pix=%r" % (tag, (x, y))
        ctx.nontrivial(sig)
        ra, dec = wcs.pix2sky([x, y])
        bx, by = wcs.sky2pix([ra, dec])
        err = float(np.hypot(bx - x, by - y))
        ctx.note_max("sip_roundtrip_px", err)
        if not err < 1e-3:
            ctx.violation("sky2pix(pix2sky(%r)) = (%.6f, %.6f): %.3g pixel off on a header with SIP distortion terms (%s)" % ((x, y), bx, by, err, tag), "sip_roundtrip|" + sig)
        ex, ey, esx, esy, eth = wcs.sky2pix_ellipse([ra, dec], 5 * cd, 3 * cd, 30.0)
        if not np.hypot(ex - x, ey - y) < 1e-3:
            ctx.violation("sky2pix_ellipse at pix2sky(%r) starts from (%.6f, %.6f) (%s)" % ((x, y), ex, ey, tag), "sip_ellipse|" + sig)
    ctx.outcome("sip")


def ev_argtypes(case, ctx):
    """integer-valued positions / lengths handed over as Python ints, lists, integer and float arrays: the same numbers
    must give the same answers whatever their type, and the caller's arrays must not be changed"""
    proj, crval, sc = case["proj"], tuple(case["crval"]), case["scale"]
    cd = sc / 3600.0
    hdr = wz.make_header(proj, crval, cd, SHAPE, beam=(3 * cd, 2 * cd, 20.0))
    wcs = WCSHelper.from_header(wz.to_fits_header(hdr))
    tag = "%s,crval=%r,scale=%g" % (proj, crval, sc)
    flav = dict(tuple_float=lambda x, y: (float(x), float(y)), tuple_int=lambda x, y: (int(x), int(y)), list_int=lambda x, y: [int(x), int(y)],
                array_int64=lambda x, y: np.array([x, y], dtype=np.int64), array_int32=lambda x, y: np.array([x, y], dtype=np.int32),
                array_float64=lambda x, y: np.array([x, y], dtype=np.float64))
    for (x, y) in [(100, 150), (1, 1), (37, 211)]:
        ra0, dec0 = wcs.pix2sky([float(x), float(y)])
        calls = [("pix2sky", lambda p_: wcs.pix2sky(p_))]
        for r_, th_ in ((1, 45), (5, 30), (2, -120), (7, 90)):
            calls.append(("pix2sky_vec(r=%d,theta=%d)" % (r_, th_), lambda p_, r_=r_, th_=th_: wcs.pix2sky_vec(p_, r_, th_)))
            calls.append(("pix2sky_ellipse(%d,%d,%d)" % (r_ + 1, r_, th_), lambda p_, r_=r_, th_=th_: wcs.pix2sky_ellipse(p_, r_ + 1, r_, th_)))
        calls.append(("sky_sep", lambda p_: wcs.sky_sep(p_, (float(x) + 3, float(y) - 4))))
        for name, fn in calls:
            ref = None
            for fname, mk in flav.items():
                ctx.count("argtype_call")
                sig = "argtypes:%s,pix=%r,%s,%s" % (tag, (x, y), name, fname)
                ctx.nontrivial(sig)
                arg = mk(x, y)
                before = np.array(arg, copy=True) if isinstance(arg, np.ndarray) else list(arg)
                try:
                    got = np.atleast_1d(np.asarray(fn(arg), dtype=float))
                except Exception as e:
                    ctx.violation("%s with the pixel given as %s raised %r (%s)" % (name, fname, e, sig), "argtype_raise|" + sig)
                    continue
                if not np.array_equal(np.asarray(arg), np.asarray(before)):
                    ctx.violation("%s changed the caller's pixel argument (%s)" % (name, sig), "argtype_mutated|" + sig)
                if ref is None:
                    ref = got
                    continue
                if got.shape != ref.shape or not np.allclose(got, ref, rtol=1e-12, atol=1e-13):
                    ctx.violation("%s at pixel (%d, %d) gives %r when the pixel is a %s and %r when it is a tuple of floats (%s)" % (
                        name, x, y, [float(v) for v in got], fname, [float(v) for v in ref], tag), "argtype_differs|" + sig)
        # sky positions: tuple / list / array
        for name, fn in [("sky2pix", lambda p_: wcs.sky2pix(p_)), ("sky2pix_vec", lambda p_: wcs.sky2pix_vec(p_, 5 * cd, 30.0)),
                         ("sky2pix_ellipse", lambda p_: wcs.sky2pix_ellipse(p_, 5 * cd, 3 * cd, 30.0))]:
            ref = None
            for fname, arg in (("tuple", (float(ra0), float(dec0))), ("list", [float(ra0), float(dec0)]), ("array", np.array([ra0, dec0], dtype=np.float64))):
                ctx.count("argtype_call")
                sig = "argtypes:%s,pix=%r,%s,%s" % (tag, (x, y), name, fname)
                before = np.array(arg, copy=True)
                try:
                    got = np.atleast_1d(np.asarray(fn(arg), dtype=float))
                except Exception as e:
                    ctx.violation("%s with the position given as %s raised %r (%s)" % (name, fname, e, sig), "argtype_raise|" + sig)
                    continue
                if not np.array_equal(np.asarray(arg), before):
                    ctx.violation("%s changed the caller's position argument (%s)" % (name, sig), "argtype_mutated|" + sig)
                if ref is None:
                    ref = got
                elif not np.allclose(got, ref, rtol=1e-12, atol=1e-13):
                    ctx.violation("%s gives %r for a %s and %r for a tuple (%s)" % (name, [float(v) for v in got], fname, [float(v) for v in ref], sig),
                                  "argtype_differs|" + sig)
    ctx.outcome("argtypes")


def ev_interleaved(case, ctx):
    """several helpers alive at once and asked in turn with bit-identical arguments: every answer must be the one of the
    helper's own header (ordered pairs (A, B) of LIVE, call order A B A; helpers made up front or on first use)"""
    made = {}

    def helper(k):
        if k not in made:
            proj, crval, sc, crpix = LIVE[k]
            hdr = wz.make_header(proj, crval, sc / 3600.0, SHAPE, beam=(3 * sc / 3600.0, 2 * sc / 3600.0, 20.0), **(dict(crpix=crpix) if crpix else {}))
            made[k] = (hdr, WCSHelper.from_header(wz.to_fits_header(hdr)))
        return made[k]
    a = case["first"]
    if case["upfront"]:
        for k in range(len(LIVE)):
            helper(k)
    for b in range(len(LIVE)):
        if b == a:
            continue
        # shared arguments: the reference position of A, of B, and a position seen from both images
        hdr_a = helper(a)[0]
        shared_sky = [tuple(float(v) for v in LIVE[a][1]), tuple(float(v) for v in LIVE[b][1])]
        r_, d_ = wz.pix2sky(hdr_a, 150.0, 100.0)
        shared_sky.append((float(r_), float(d_)))
        shared_pix = [(100.0, 150.0), (1.0, 1.0), (57.25, 211.5)]
        for step, k in enumerate((a, b, a)):
            hdr, wcs = helper(k)
            cd = LIVE[k][2] / 3600.0
            sig = "live:%d_then_%d,step=%d,upfront=%d" % (a, b, step, case["upfront"])
            for (ra, dec) in shared_sky:
                ctx.count("interleaved")
                ctx.nontrivial(sig + ",sky=%r" % ((ra, dec),))
                ox, oy = wz.sky2pix(hdr, ra, dec)      # (column, row), 1-based
                if not (np.isfinite(ox) and np.isfinite(oy) and -50 <= ox <= SHAPE[1] + 50 and -50 <= oy <= SHAPE[0] + 50):
                    ctx.count("interleaved_off_image_skipped")      # the property speaks of positions inside the image
                    continue
                gx, gy = wcs.sky2pix([ra, dec])
                if not np.hypot(gx - oy, gy - ox) < 1e-6 * max(1.0, np.hypot(ox, oy)):
                    ctx.violation("helper %r: sky2pix(%.6f, %.6f) = (%.6f, %.6f), FITS standard gives (row %.6f, col %.6f) (%s)" % (
                        LIVE[k], ra, dec, gx, gy, oy, ox, sig), "live_sky2pix|" + sig)
                vx, vy, vr, vth = wcs.sky2pix_vec([ra, dec], 5 * cd, 30.0)
                ex, ey, esx, esy, eth = wcs.sky2pix_ellipse([ra, dec], 5 * cd, 3 * cd, 30.0)
                if not (np.hypot(vx - oy, vy - ox) < 1e-6 * max(1.0, np.hypot(ox, oy)) and np.hypot(ex - oy, ey - ox) < 1e-6 * max(1.0, np.hypot(ox, oy))):
                    ctx.violation("helper %r: sky2pix_vec / sky2pix_ellipse at (%.6f, %.6f) start from (%.6f, %.6f) / (%.6f, %.6f), expected (%.6f, %.6f) (%s)" % (
                        LIVE[k], ra, dec, vx, vy, ex, ey, oy, ox, sig), "live_vec|" + sig)
                q1, q2, qa, qb, qpa = wcs.pix2sky_ellipse([ex, ey], esx, esy, eth)
                if not (abs(qa - 5 * cd) <= 1e-3 * 5 * cd and abs(qb - 3 * cd) <= 1e-3 * 3 * cd and angd(qpa, 30.0, 180.0) <= 0.01):
                    ctx.violation("helper %r: sky ellipse at (%.6f, %.6f) -> pixel -> sky gives (%.6g, %.6g, %.4f) (%s)" % (
                        LIVE[k], ra, dec, qa, qb, qpa, sig), "live_ellipse|" + sig)
            for (x, y) in shared_pix:
                ctx.count("interleaved")
                ra, dec = wcs.pix2sky([x, y])
                rra, rdec = wz.pix2sky(hdr, y, x)
                bx, by = wcs.sky2pix([ra, dec])
                if not (float(sphere.dist(ra, dec, rra, rdec)) / cd < 1e-6 and np.hypot(bx - x, by - y) < 1e-6):
                    ctx.violation("helper %r: pix2sky(%r) = (%.9f, %.9f) (standard: %.9f, %.9f), back to (%.6f, %.6f) (%s)" % (
                        LIVE[k], (x, y), ra, dec, rra, rdec, bx, by, sig), "live_pix2sky|" + sig)
    ctx.outcome("interleaved")


def angd(a, b, period):
    d = (a - b) % period
    return min(d, period - d)


def gnomonic(ra0, dec0, ra, dec):
    """tangent-plane offsets (xi east, eta north) in degrees of (ra,dec) about (ra0,dec0), longdouble"""
    LD = np.longdouble
    a0, d0, a, d = [LD(v) * sphere.D2R for v in (ra0, dec0, ra, dec)]
    cosc = np.sin(d0) * np.sin(d) + np.cos(d0) * np.cos(d) * np.cos(a - a0)
    xi = np.cos(d) * np.sin(a - a0) / cosc
    eta = (np.cos(d0) * np.sin(d) - np.sin(d0) * np.cos(d) * np.cos(a - a0)) / cosc
    return float(xi / sphere.D2R), float(eta / sphere.D2R)


def ev_conversions(case, ctx):
    proj, crval, sc = case["proj"], tuple(case["crval"]), case["scale"]
    cd = sc / 3600.0
    hdr = wz.make_header(proj, crval, cd, SHAPE, beam=(3 * cd, 2 * cd, 20.0))
    wcs = WCSHelper.from_header(wz.to_fits_header(hdr))
    tag = "%s,crval=%r,scale=%g" % (proj, crval, sc)
    dang = core.seed_shift(ctx.seed, 6, 3.0)
    for pix in pixels(ctx.seed):
        x, y = pix  # Aegean's (x, y) = (row, column), 1-based
        # ---- positions ----------------------------------------------------
        ctx.count("position")
        sig = "%s,pix=%r" % (tag, pix)
        ra, dec = wcs.pix2sky([x, y])
        rra, rdec = wz.pix2sky(hdr, y, x)
        err = float(sphere.dist(ra, dec, rra, rdec)) / cd  # in pixels
        ctx.note_max("pix2sky_err_px", err)
        if not err < 1e-6:
            ctx.violation("pix2sky(%r) = (%.10f, %.10f), FITS standard gives (%.10f, %.10f): %.3g px (%s)" % (
                pix, ra, dec, rra, rdec, err, tag), "pix2sky|" + sig)
        bx, by = wcs.sky2pix([ra, dec])
        rt = float(np.hypot(bx - x, by - y))
        ctx.note_max("roundtrip_err_px", rt)
        if not rt < 1e-6:
            ctx.violation("sky2pix(pix2sky(%r)) = (%.9f, %.9f) (%s)" % (pix, bx, by, tag), "roundtrip|" + sig)
        ox, oy = wz.sky2pix(hdr, rra, rdec)  # oracle self-consistency (harness sanity)
        assert abs(ox - y) < 1e-6 and abs(oy - x) < 1e-6, (ox, oy, pix, tag)
        # sky2pix of the reference position, in (row, col) order
        sx_, sy_ = wcs.sky2pix([float(rra), float(rdec)])
        if not np.hypot(sx_ - x, sy_ - y) < 1e-6:
            ctx.violation("sky2pix(%.9f, %.9f) = (%.9f, %.9f), expected %r (%s)" % (rra, rdec, sx_, sy_, pix, tag),
                          "sky2pix|" + sig)
        if abs(float(rdec)) > 90.0 - 1e-9:
            # the pixel IS a celestial pole: "east of north" has no meaning there, so the position-angle clauses say nothing
            # (the point clauses above do hold and were judged)
            ctx.count("pa_undefined_at_pole")
            continue
        sizes = SIZES if ctx.tier == "quick" else [1.0, 2.0, 5.0, 10.0, 20.0]
        ratios = RATIOS if ctx.tier == "quick" else [1.0, 0.997, 0.8, 0.5, 0.2]
        angles = ANGLES if ctx.tier == "quick" else [-180.0 + 15.0 * k for k in range(1, 25)]
        for size, ratio, ang0 in itertools.product(sizes, ratios, angles):
            ang = ang0 + dang
            esig = "%s,size=%g,ratio=%g,ang=%g" % (sig, size, ratio, ang0)
            ctx.nontrivial(esig)
            # ---- vectors ---------------------------------------------------
            if ratio == 1.0:
                ctx.count("vector")
                r1, d1, vr, vpa = wcs.pix2sky_vec([x, y], size, ang)
                ex = x + size * np.cos(np.radians(ang))
                ey = y + size * np.sin(np.radians(ang))
                era, edec = wz.pix2sky(hdr, ey, ex)
                ref_len = float(sphere.dist(rra, rdec, era, edec))
                ref_pa = float(sphere.bearing(rra, rdec, era, edec))
                if not abs(vr - ref_len) <= 1e-3 * ref_len:
                    ctx.violation("pix2sky_vec length %.9g, great-circle length %.9g (%s)" % (vr, ref_len, esig),
                                  "vec_len|" + esig)
                if not angd(vpa, ref_pa, 360.0) <= 0.01:
                    ctx.violation("pix2sky_vec angle %.6f, bearing E of N %.6f (%s)" % (vpa, ref_pa, esig),
                                  "vec_pa|" + esig)
                bx, by, br, bth = wcs.sky2pix_vec([r1, d1], vr, vpa)
                ctx.note_max("vec_roundtrip_rel", abs(br - size) / size)
                ctx.note_max("vec_roundtrip_deg", angd(bth, ang, 360.0))
                if not (abs(br - size) <= 1e-3 * size and angd(bth, ang, 360.0) <= 0.01
                        and np.hypot(bx - x, by - y) < 1e-6):
                    ctx.violation("vector round trip (%g px, %g deg) -> (%.6f px, %.5f deg) (%s)" % (
                        size, ang, br, bth, esig), "vec_roundtrip|" + esig)
            # ---- ellipses --------------------------------------------------
            ctx.count("ellipse")
            sx, sy = size, size * ratio
            r1, d1, a, b, pa = wcs.pix2sky_ellipse([x, y], sx, sy, ang)
            ex = x + sx * np.cos(np.radians(ang))
            ey = y + sx * np.sin(np.radians(ang))
            era, edec = wz.pix2sky(hdr, ey, ex)
            ref_a = float(sphere.dist(rra, rdec, era, edec))
            ref_pa = float(sphere.bearing(rra, rdec, era, edec))
            mx = x + sy * np.cos(np.radians(ang - 90))
            my = y + sy * np.sin(np.radians(ang - 90))
            mra, mdec = wz.pix2sky(hdr, my, mx)
            xi, eta = gnomonic(rra, rdec, mra, mdec)
            # unit vector perpendicular to the major axis (pa E of N -> direction (sin pa, cos pa) in (xi, eta))
            pr = np.radians(ref_pa)
            ref_b = abs(xi * np.cos(pr) - eta * np.sin(pr))
            if not abs(a - ref_a) <= 1e-3 * ref_a:
                ctx.violation("pix2sky_ellipse major %.9g, great-circle %.9g (%s)" % (a, ref_a, esig), "ell_major|" + esig)
            if not angd(pa, ref_pa, 360.0) <= 0.01:
                ctx.violation("pix2sky_ellipse pa %.6f, bearing E of N %.6f (%s)" % (pa, ref_pa, esig), "ell_pa|" + esig)
            ctx.note_max("ell_minor_rel", abs(b - ref_b) / ref_b)
            if not abs(b - ref_b) <= 1e-3 * ref_b:
                ctx.violation("pix2sky_ellipse minor %.9g, reference %.9g (%s)" % (b, ref_b, esig), "ell_minor|" + esig)
            # ---- the other direction: a sky ellipse given exactly (axis ratio exactly as listed, incl. 1) -> pixel -> sky
            ctx.count("ellipse_sky_first")
            sa = size * cd
            sb = sa * ratio
            spa = ((ang + 90.0) % 180.0) - 90.0
            px, py, psx, psy, pth = wcs.sky2pix_ellipse([float(rra), float(rdec)], sa, sb, spa)
            q1, q2, qa, qb, qpa = wcs.pix2sky_ellipse([px, py], psx, psy, pth)
            ctx.note_max("ell_sky_roundtrip_rel", max(abs(qa - sa) / sa, abs(qb - sb) / sb))
            if not (abs(qa - sa) <= 1e-3 * sa and abs(qb - sb) <= 1e-3 * sb and (ratio == 1.0 or angd(qpa, spa, 180.0) <= 0.01)
                    and np.hypot(px - x, py - y) < 1e-6):
                ctx.violation("sky ellipse (%.6g, %.6g deg, pa %.4f) -> pixel -> sky gives (%.6g, %.6g, %.4f) (%s)" % (
                    sa, sb, spa, qa, qb, qpa, esig), "ell_sky_roundtrip|" + esig)
            if ratio == 1.0:
                ctx.count("vector_sky_first")
                vx, vy, vr2, vth2 = wcs.sky2pix_vec([float(rra), float(rdec)], sa, spa)
                w1, w2, wr, wpa = wcs.pix2sky_vec([vx, vy], vr2, vth2)
                if not (abs(wr - sa) <= 1e-3 * sa and angd(wpa, spa, 360.0) <= 0.01):
                    ctx.violation("sky vector (%.6g deg, pa %.4f) -> pixel -> sky gives (%.6g, %.4f) (%s)" % (sa, spa, wr, wpa, esig),
                                  "vec_sky_roundtrip|" + esig)
            bx, by, bsx, bsy, bth = wcs.sky2pix_ellipse([r1, d1], a, b, pa)
            ctx.note_max("ell_roundtrip_rel", max(abs(bsx - sx) / sx, abs(bsy - sy) / sy))
            ctx.note_max("ell_roundtrip_deg", angd(bth, ang, 180.0))
            if not (abs(bsx - sx) <= 1e-3 * sx and abs(bsy - sy) <= 1e-3 * sy and angd(bth, ang, 180.0) <= 0.01
                    and np.hypot(bx - x, by - y) < 1e-6):
                ctx.violation("ellipse round trip (%g, %g, %g) -> (%.6f, %.6f, %.5f) (%s)" % (
                    sx, sy, ang, bsx, bsy, bth, esig), "ell_roundtrip|" + esig)
    ctx.outcome(proj)


def evaluate(clause, case, ctx):
    dict(interleaved=ev_interleaved, argtypes=ev_argtypes, pvsin=ev_pvsin, sip=ev_sip).get(clause, ev_conversions)(case, ctx)
