#!/usr/bin/env python3
"""
Confirm a seeded change and run checks against it.

  tools_seed_eval.py <sid> --props C07 [C06 ...] [--skip-suite] [--tier quick]

Reads /tmp/seed/<sid>/{patch.diff,demo.py,notes.txt}.  In a scratch worktree of /repo (outside /repo and /verif):
  1. the patch applies to HEAD;  2. demo.py exits 0 without and non-zero with the patch;  3. the repository's own
  test suite passes with the patch.  Then applies the patch to /repo itself, runs the listed checks, and reverts
  (git -C /repo checkout -- .).  Writes /verif/seeded/<sid>/{patch.diff,demo.py,meta.json}.
"""
import argparse
import json
import os
import shutil
import subprocess
import sys
import time

VERIF = os.path.dirname(os.path.abspath(__file__))
PY = "/venv/bin/python"


def sh(cmd, cwd=None, timeout=3600, env=None):
    r = subprocess.run(cmd, cwd=cwd, shell=isinstance(cmd, str), capture_output=True, text=True, timeout=timeout, env=env)
    return r.returncode, (r.stdout + r.stderr)


def keep_replays(sid, prop, out):
    """copy (up to 2) replay files named in VIOLATION lines into seeded/<sid>/replays/"""
    import re
    dst = os.path.join(VERIF, "seeded", sid, "replays")
    n = 0
    for m in re.finditer(r"^VIOLATION property=(\S+) replay=(\S+)", out, flags=re.M):
        if n >= 2:
            break
        if os.path.exists(m.group(2)):
            os.makedirs(dst, exist_ok=True)
            shutil.copy(m.group(2), os.path.join(dst, "%s_%d.json" % (prop, n)))
            n += 1
    return n


def recheck(a):
    dst = os.path.join(VERIF, "seeded", a.sid)
    meta = json.load(open(os.path.join(dst, "meta.json")))
    patch = os.path.join(dst, "patch.diff")
    rc, out = sh(["git", "-C", "/repo", "status", "--porcelain"])
    assert out.strip() == "", "/repo is not clean: %s" % out
    rc, out = sh(["git", "-C", "/repo", "apply", patch])
    assert rc == 0, out
    try:
        for p in a.props:
            t = time.time()
            rc, out = sh([os.path.join(VERIF, "run_check.py"), p, "--tier", a.tier], cwd=VERIF, timeout=7200)
            classes = [l.strip() for l in out.splitlines() if l.startswith("violation class")]
            first = [l.strip() for l in out.splitlines() if l.strip().startswith("clause=")][:3]
            meta["checks"][p] = dict(exit=rc, wall_s=round(time.time() - t, 1), violation_classes=classes, first_violations=first,
                                     summary=[l for l in out.splitlines() if l.startswith(p + " tier=")][-1:])
            meta["ran"].append("re-check: git -C /repo apply patch.diff && ./run_check.py %s --tier %s -> exit %d" % (p, a.tier, rc))
            keep_replays(a.sid, p, out)
            if p not in meta["checked_with"]:
                meta["checked_with"].append(p)
            print(p, "exit", rc, classes[:6])
    finally:
        sh(["git", "-C", "/repo", "checkout", "--", "."])
        sh("rm -f /repo/circle.mim")
    meta["detected_by"] = [p for p, r in meta["checks"].items() if r["exit"] == 1]
    json.dump(meta, open(os.path.join(dst, "meta.json"), "w"), indent=1)
    print("detected by:", meta["detected_by"])


def main():
    ap = argparse.ArgumentParser()
    ap.add_argument("sid")
    ap.add_argument("--props", nargs="+", required=True)
    ap.add_argument("--skip-suite", action="store_true")
    ap.add_argument("--tier", default="quick")
    ap.add_argument("--needs", default="")
    ap.add_argument("--confirm-only", action="store_true", help="only the scratch-worktree confirmation (demo both ways + suite); run --recheck afterwards")
    ap.add_argument("--suite-only", action="store_true", help="re-run only the repository suite with the stored patch in a scratch worktree and update meta.json")
    ap.add_argument("--recheck", action="store_true", help="only re-run the checks against the stored patch and update meta.json")
    a = ap.parse_args()
    if a.recheck:
        return recheck(a)
    if a.suite_only:
        dst = os.path.join(VERIF, "seeded", a.sid)
        meta = json.load(open(os.path.join(dst, "meta.json")))
        wt = "/tmp/wt_eval_%s" % a.sid
        sh(["git", "-C", "/repo", "worktree", "remove", "--force", wt])
        rc, out = sh(["git", "-C", "/repo", "worktree", "add", "-q", wt, "HEAD"])
        assert rc == 0, out
        env = dict(os.environ)
        env.pop("AEGEAN_VERIF", None)
        env["TQDM_DISABLE"] = "1"
        try:
            rc, out = sh(["git", "apply", os.path.join(dst, "patch.diff")], cwd=wt)
            assert rc == 0, out
            t = time.time()
            rc, out = sh("%s -m pytest -q -p no:cacheprovider --timeout=900 2>&1 | tail -3" % PY, cwd=wt, timeout=3600, env=env)
            meta["confirmed"]["suite_tail"] = out.strip()[-300:]
            meta["confirmed"]["suite_passes"] = (" failed" not in out) and (" passed" in out) and ("error" not in out.lower().split("passed")[0][-40:])
            meta["ran"].append("repository test suite with the patch in a scratch worktree, re-run (%.0f s): %s" % (time.time() - t, out.strip().splitlines()[-1] if out.strip() else ""))
        finally:
            sh(["git", "-C", "/repo", "worktree", "remove", "--force", wt])
        json.dump(meta, open(os.path.join(dst, "meta.json"), "w"), indent=1)
        print(a.sid, meta["confirmed"]["suite_passes"], meta["confirmed"]["suite_tail"][-60:])
        return
    src = "/tmp/seed/%s" % a.sid
    dst = os.path.join(VERIF, "seeded", a.sid)
    os.makedirs(dst, exist_ok=True)
    patch = os.path.join(src, "patch.diff")
    demo = os.path.join(src, "demo.py")
    meta = dict(id=a.sid, breaks_property=a.props[0], checked_with=a.props, ran=[], confirmed={})
    if os.path.exists(os.path.join(src, "notes.txt")):
        meta["author_notes"] = open(os.path.join(src, "notes.txt")).read()[:3000]
    meta["needs_to_manifest"] = a.needs
    wt = "/tmp/wt_eval_%s" % a.sid
    sh(["git", "-C", "/repo", "worktree", "remove", "--force", wt])
    rc, out = sh(["git", "-C", "/repo", "worktree", "add", "-q", wt, "HEAD"])
    assert rc == 0, out
    env = dict(os.environ)
    env.pop("AEGEAN_VERIF", None)
    env["TQDM_DISABLE"] = "1"
    try:
        rc0, out0 = sh([PY, demo], cwd=wt, timeout=600, env=env)
        meta["confirmed"]["demo_without_patch_exit"] = rc0
        rc, out = sh(["git", "apply", patch], cwd=wt)
        meta["confirmed"]["patch_applies"] = rc == 0
        if rc != 0:
            meta["confirmed"]["apply_error"] = out[-500:]
        rc1, out1 = sh([PY, demo], cwd=wt, timeout=600, env=env)
        meta["confirmed"]["demo_with_patch_exit"] = rc1
        meta["confirmed"]["demo_with_patch_tail"] = out1[-600:]
        meta["ran"].append("cd <scratch worktree> && %s demo.py  (without patch: exit %d, with patch: exit %d)" % (PY, rc0, rc1))
        if not a.skip_suite:
            t = time.time()
            rc, out = sh("%s -m pytest -q -p no:cacheprovider --timeout=900 2>&1 | tail -3" % PY, cwd=wt, timeout=3600, env=env)
            meta["confirmed"]["suite_tail"] = out.strip()[-300:]
            meta["confirmed"]["suite_passes"] = (" failed" not in out) and (" passed" in out) and ("error" not in out.lower().split("passed")[0][-40:])
            meta["ran"].append("repository test suite with the patch in the scratch worktree (%.0f s): %s" % (time.time() - t, out.strip().splitlines()[-1] if out.strip() else ""))
    finally:
        sh(["git", "-C", "/repo", "worktree", "remove", "--force", wt])
    if a.confirm_only:
        meta["checks"] = {}
        shutil.copy(patch, os.path.join(dst, "patch.diff"))
        shutil.copy(demo, os.path.join(dst, "demo.py"))
        meta["detected_by"] = []
        json.dump(meta, open(os.path.join(dst, "meta.json"), "w"), indent=1)
        print(a.sid, json.dumps(meta["confirmed"])[:600])
        return
    # now the checks against /repo itself
    rc, out = sh(["git", "-C", "/repo", "status", "--porcelain"])
    assert out.strip() == "", "/repo is not clean: %s" % out
    rc, out = sh(["git", "-C", "/repo", "apply", patch])
    assert rc == 0, out
    meta["checks"] = {}
    try:
        for p in a.props:
            t = time.time()
            rc, out = sh([os.path.join(VERIF, "run_check.py"), p, "--tier", a.tier], cwd=VERIF, timeout=7200)
            classes = [l.strip() for l in out.splitlines() if l.startswith("violation class")]
            first = [l.strip() for l in out.splitlines() if l.strip().startswith("clause=")][:3]
            meta["checks"][p] = dict(exit=rc, wall_s=round(time.time() - t, 1), violation_classes=classes, first_violations=first,
                                     summary=[l for l in out.splitlines() if l.startswith(p + " tier=")][-1:])
            meta["ran"].append("git -C /repo apply patch.diff && ./run_check.py %s --tier %s -> exit %d" % (p, a.tier, rc))
            keep_replays(a.sid, p, out)
            print(p, "exit", rc, classes[:6])
    finally:
        sh(["git", "-C", "/repo", "checkout", "--", "."])
        sh("rm -f /repo/circle.mim")
        rc, out = sh(["git", "-C", "/repo", "status", "--porcelain"])
        assert out.strip() == "", out
    # restore evidence of the unchanged tree is the caller's business (evidence files are rewritten by every run)
    shutil.copy(patch, os.path.join(dst, "patch.diff"))
    shutil.copy(demo, os.path.join(dst, "demo.py"))
    meta["detected_by"] = [p for p, r in meta["checks"].items() if r["exit"] == 1]
    json.dump(meta, open(os.path.join(dst, "meta.json"), "w"), indent=1)
    print(json.dumps(meta["confirmed"], indent=1)[:1500])
    print("detected by:", meta["detected_by"])


if __name__ == "__main__":
    main()
