ENGINES = [
 dict(name="E1", path="mc/core.py", serves_properties=["C17"], kind_free_text="bounded-exhaustive enumeration of input/configuration lattices on the real code against independent reference models"),
]
NOTES = "All checks run /repo's working tree through the editable install in /venv; see DESIGN.md."
NOT_YET = {}
CLAIMED["C17"] = dict(engine="E1", category="exploration", design_ref="DESIGN.md section 3, C17",
    technique="bounded-exhaustive enumeration (all pairs/triples of an adversarial point set, every minute boundary) vs extended-precision vector reference and exact rational arithmetic",
    text="Every ordered pair and triple of a 40-point adversarial set (poles, RA wrap, separations 1e-9..180-1e-9 deg) and every minute boundary of the sexagesimal formats are executed on the real functions and compared with an independent longdouble vector model / exact Fractions; exhaustive within that lattice, no claim between lattice points.",
    note="Trusts numpy longdouble trigonometry and Python Fractions as reference; bearing tolerance follows the conditioning of the standard formula.")
