ENGINES = [
 dict(name="E1", path="mc/core.py", serves_properties=["C17"], kind_free_text="bounded-exhaustive enumeration of input/configuration lattices on the real code against independent reference models"),
]
NOTES = "All checks run /repo's working tree through the editable install in /venv; see DESIGN.md."
NOT_YET = {}
CLAIMED["C17"] = dict(engine="E1", category="exploration", design_ref="DESIGN.md section 3, C17",
    technique="bounded-exhaustive enumeration (all pairs/triples of an adversarial point set, every minute boundary) vs extended-precision vector reference and exact rational arithmetic",
    text="Every ordered pair and triple of a 40-point adversarial set (poles, RA wrap, separations 1e-9..180-1e-9 deg) and every minute boundary of the sexagesimal formats are executed on the real functions and compared with an independent longdouble vector model / exact Fractions; exhaustive within that lattice, no claim between lattice points.",
    note="Trusts numpy longdouble trigonometry and Python Fractions as reference; bearing tolerance follows the conditioning of the standard formula.")
ENGINES[0]["serves_properties"] += ["C15", "C20"]
CLAIMED["C20"] = dict(engine="E1", category="exploration", design_ref="DESIGN.md section 3, C20",
    technique="bounded-exhaustive enumeration of every (rows, band count, band) triple on the real loader vs integer tiling and an independent zenithal WCS model",
    text="Every (rows, n, i) with rows 1..120 (quick) / 1..400 plus six large sizes (thorough), n 1..64 and every band i is loaded with the real load_image_band from real FITS files; ranges must tile, values must equal the full image rows and the band header must map pixels to the same sky position under an independent WCS model; all input kinds on a 40-value slice; exhaustive within those bounds.",
    note="Trusts astropy.io.fits to write/read the test files and the 40-line zenithal WCS reference; rotation-free headers only.")
CLAIMED["C15"] = dict(engine="E1", category="exploration", design_ref="DESIGN.md section 3, C15",
    technique="bounded-exhaustive enumeration of all small image shapes x factors x header/input/image kinds on the real compress/expand",
    text="All shapes in [2..10]^2 (quick) / [2..20]^2 plus extras (thorough) x factors up to 64 x {CDELT,CD} x {file,HDUList} x three image kinds are compressed and expanded by the real code; shape, WCS keywords, BN_* removal, node exactness, range and complete-cell exactness are checked on every case; SR6 CLI and Aegean's aux loader on a slice.",
    note="Trusts astropy.io.fits; node-linear test images are dyadic so float32 storage is exact.")
ENGINES[0]["serves_properties"] += ["C02", "C16"]
CLAIMED["C16"] = dict(engine="E1", category="exploration", design_ref="DESIGN.md section 3, C16",
    technique="bounded-exhaustive enumeration of a projection x reference point x scale x pixel x ellipse lattice vs an independent FITS Paper II zenithal model and longdouble spherical geometry",
    text="Full product of 5 projections x 5 reference points (high |dec|, RA wrap) x 3-5 pixel scales x 5 pixel positions x ellipse size/ratio/angle lattices is run through the real WCSHelper; positions are compared with an independent implementation of the FITS standard in (row, column) 1-based order, vectors/ellipses with great-circle lengths and bearings East of North, and all round trips are closed at the property's tolerances.",
    note="Rotation-free square pixels, |dec| <= 85; trusts the 80-line zenithal reference (self-checked by its own inverse on every case) and longdouble trigonometry.")
CLAIMED["C02"] = dict(engine="E1", category="exploration", design_ref="DESIGN.md section 3, C02",
    technique="exhaustive enumeration of ALL images over a signal-to-noise alphabet on small grids vs a breadth-first flood-fill reference",
    text="Every image over alphabets of 2-10 signal-to-noise letters (incl. NaN, negative, exact-threshold ties) on every grid up to 3x3 / 2x3 (quick) and 3x4 / 4x4 / 3x5 (thorough), each through three (image, background, noise) realisations and two seeds, is passed to the real find_islands and compared as a set of (pixel set, bounding box) with an independent BFS; disjointness, blank-free membership and seed monotonicity are checked directly.",
    note="Grid sizes are bounded (<= 15 pixels); thresholds fixed at flood 4, seeds 5 and 7; the component-origin clause is covered on scenes in C03/C11.")
ENGINES[0]["serves_properties"] += ["C04"]
CLAIMED["C04"] = dict(engine="E1", category="exploration", design_ref="DESIGN.md section 3, C04",
    technique="bounded-exhaustive enumeration of every free-parameter subset x parameter lattice vs complex-step derivatives of an independent model and the inverse Fisher matrix",
    text="For every lattice component (60) every one of the 63 free-parameter subsets, for 6-12 two-component models every one of the 4095 subset pairs, and for 3-4 components the 4^n structured subsets, the real jacobian / lmfit_jacobian / covar_errors are executed on full, NaN-masked and single-row pixel sets with and without errs / B / C weighting and compared with complex-step derivatives (exact to rounding) and sqrt(diag(inv(Fisher))) at the parameter's own global index.",
    note="Trusts numpy linear algebra and the 20-line reference model; the error clause is skipped for ill-conditioned Fisher matrices (cond > 1e10).")
ENGINES.append(dict(name="E2", path="mc/histories.py", serves_properties=["C08", "C12"], kind_free_text="explicit-state breadth-first search over operation histories; each transition executes the real method on a copy of the real objects and the same operation on a reference set model; states de-duplicated on the full internal representation; invariants evaluated in every state"))
CLAIMED["C08"] = dict(engine="E2", category="model_checking", design_ref="DESIGN.md section 3, C08",
    technique="explicit-state BFS over all operation histories (30-operation alphabet, depth 3 quick / 5 thorough) of real Region objects with a HEALPix set model as oracle",
    text="All histories over a 30-operation alphabet (add circles/polygons/pixels at equal and lower depth, union with equal/finer/coarser regions, difference, intersection, symmetric difference, the three queries, save+load) on four registers of depth 2/3/3/5 are explored breadth-first on the real objects; in every distinct implementation state membership at every deepest-level pixel centre and at off-centre points, the deepest-level set, the area, single representation and integral ids are compared with the set model. combine_regions: all 96 container-field subsets.",
    note="healpy is the trusted geometry kernel; depth bound as stated; states violating an invariant are reported and not expanded.")
CLAIMED["C12"] = dict(engine="E2", category="model_checking", design_ref="DESIGN.md section 3, C12",
    technique="exports taken in every distinct region state reached by the E2 history search plus bounded-exhaustive fixed regions x maxdepth 1..12, decoded by an independent NUNIQ / DS9 / pickle reader",
    text="Every distinct internal representation of every register reached by the history search (depth 3 quick / 5 thorough from the empty state, one less from a populated once-queried state), i.e. before and after demoting queries, is written as MOC FITS, DS9 and .mim and decoded independently (NUNIQ -> order, ipix -> deepest level; polygon vertices vs healpy pixel corners; load equality and fixpoint); plus {empty, single, circle, whole sky} x maxdepth 1..12 x {fresh, after query}.",
    note="healpy.boundaries is the trusted pixel outline; DS9 vertices compared at the printed precision.")
ENGINES[0]["serves_properties"] += ["C09", "C10"]
CLAIMED["C09"] = dict(engine="E1", category="exploration", design_ref="DESIGN.md section 3, C09",
    technique="bounded-exhaustive enumeration of centre x radius x depth (circles) and centre x n-gon x size x depth x winding (polygons), queried at every pixel centre of the sphere and on boundary rings, vs longdouble great-circle distances",
    text="Every combination of 7 centres (both poles, RA wrap), 4 radii and depths 3..12 (circles) and 6 vertex counts x 3 sizes x depths x 2 windings (polygons) is built with the real Region and queried at EVERY pixel centre of the whole sphere one level finer plus rings just inside the shape and just beyond radius + 3 pixels, through scalar/list/array and degree/radian interfaces; membership and cap areas are decided against an independent vector distance.",
    note="Radius capped at depth >= 9 to keep regions <= 2e5 pixels; healpy is NOT the oracle here (distance is), so Aegean's use of healpy is what is checked.")
CLAIMED["C10"] = dict(engine="E1", category="exploration", design_ref="DESIGN.md section 3, C10",
    technique="bounded-exhaustive enumeration of image shape x WCS x region x depth x negate x dimensionality and of all 2^5 table row subsets vs an independent pixel-centre WCS model and HEALPix membership",
    text="Full product of 3 shapes x 3 projections x {centred, off-image CRPIX} x 2 scales x 3 region kinds x 2 depths x negate x {mask_plane, mask_file 2-D/3-D/4-D}: the blanked set must equal the set of pixels whose centre (independent zenithal WCS model) falls outside the region's own pixel set, complements under negate, other values bit-identical, all planes equal; tables: all 32 subsets of five archetype rows incl. empty and NaN coordinates through mask_table and mask_catalog (csv, fits), custom column names.",
    note="Rotation-free headers; pixels whose centre is within 1e-6 pixel of a HEALPix boundary are excluded (count reported, 0 on the current lattice).")
ENGINES.append(dict(name="E3", path="mc/sched.py", serves_properties=["C07"], kind_free_text="stateless (CHESS-style) exploration of thread interleavings of the real BANE stripe code under a cooperative baton scheduler with iterative preemption bounding, simulated pool/condition, CPython's real Barrier algorithm, single-fault enumeration"))
ENGINES.append(dict(name="E4", path="mc/tla.py + models/BaneProtocol.tla", serves_properties=["C07"], kind_free_text="TLA+ model of the pool+barrier protocol checked by TLC for every (stripes, workers, fault) instance up to a bound; the per-stripe program is extracted from the running code; TLC graph paths are replayed on the implementation with a state-by-state refinement check, and schedules are replayed on real multiprocessing through cross-process gates"))
CLAIMED["C07"] = dict(engine="E3+E4+E1", category="model_checking", design_ref="DESIGN.md section 3, C07",
    technique="TLC explicit-state model checking of the extracted pool+barrier protocol + exhaustive preemption-bounded schedule exploration of the real stripe code + conformance replay of model paths on the code and of schedules on real multiprocessing + exhaustive layout sweep",
    text="(1) every (rows, grid, cores, stripes) layout up to rows 64/300 is computed by the real code and mapped to a protocol instance; (2) TLC checks deadlock freedom, no broken barrier without fault and fault => raise on all reachable states for every (stripes, workers) up to 3/4 (+5,5 and 6,6) with no fault and every single (stripe, phase) fault, the per-stripe program being extracted from the running code; (3) every interleaving of the real stripes at barrier operations (unbounded for <= 2 stripes, preemption bound 2-3 above) and at shared-memory accesses (bound 1-2) is executed: no deadlock, no exception, no segment left, bit-identical maps for every schedule and worker count; every single fault in every stripe at every phase must raise; (4) an edge-covering path set of the TLC graph is replayed on the code with state-by-state comparison, and representative schedules incl. faults are replayed on the real fork pool / Barrier / SharedMemory through inherited semaphores, plus a free-running pass.",
    note="Pool and condition variable are simulated (validated by the real-process replays); instances with more stripes than the TLC bound are reported as not covered; OS-level faults (SIGKILL, OOM) are out of scope.")
ENGINES[0]["serves_properties"] += ["C06"]
CLAIMED["C06"] = dict(engine="E1", category="exploration", design_ref="DESIGN.md section 3, C06",
    technique="bounded-exhaustive enumeration of image archetype x shape x grid x box x cores x stripes x mask with metamorphic transformations (shift, scale) and absolute clauses on the real filter_image",
    text="Every combination of 5 image archetypes (constant, noise, gradient, NaN block, NaN border) x 2-3 shapes x grids x boxes x cores 1..4 x stripes {None,1,cores,cores+1,2*cores} x mask is run through the real filter_image (pool simulated in-process) together with its +1024, x-1, x-2, x0.5 transformed twin on an exactly representable lattice; equivariance, constant image, range, mask propagation, far-from-blank finiteness and shape are decided on every case; cubes / BSCALE (float, int16) / compressed output differentially against the plain run; a fixed family of stationary-noise realisations; a slice on real multiprocessing.",
    note="One schedule per configuration (schedule independence is C07); statistical clause only on enumerated realisations; rows, cols >= 4.")
ENGINES[0]["serves_properties"] += ["C01"]
CLAIMED["C01"] = dict(engine="E1", category="exploration", design_ref="DESIGN.md section 3, C01",
    technique="bounded-exhaustive enumeration of three full products (geometry x source, options, fixed noise realisations) with sources rendered by an independent sky-plane model and recovered by the real blind finder",
    text="A: projection (5) x sky location incl. |dec| 85 and RA wrap (4) x sub-pixel phase x position angle x shape; B: covariance weighting x amplitude x pixel scale x beam x angle x phase; C: a fixed family of 8/24 noise realisations x {white, beam-correlated + covariance weighting} x {forced rms, internal BANE on 1 and 2 cores} x SNR x shape. Every case is rendered by an independent gnomonic Gaussian model on an independent WCS model, run through find_sources_in_image and compared at the property's tolerances (0.02 px, 0.1 %, 0.5 %, 0.5 deg, 0.5 %; 5 reported standard errors).",
    note="Statistical clause is decided only on the enumerated realisations (max |z| 3.9 on the repaired tree); no claim between lattice points; rotation-free square pixels.")
ENGINES[0]["serves_properties"] += ["C11"]
CLAIMED["C11"] = dict(engine="E1", category="exploration", design_ref="DESIGN.md section 3, C11",
    technique="bounded-exhaustive sweep of island shapes across the region edge (every integer offset in a 7x7 window) x region x depth x WCS x thresholds vs the filtered unrestricted run, with membership from an independent WCS + HEALPix model",
    text="Six island shapes (blob, bars, L, diagonal, L with a second island inside its bounding box) are swept pixel by pixel across a diagonal stretch of the region edge (49 offsets, unequal row/column offsets), for circle and polygon regions, depths 8/10 (7..11 thorough), two WCS and two (seed, flood) pairs; find_islands(region=) must return exactly the unrestricted islands that have an own pixel whose centre is in the region. A slice runs rendered sources straddling the edge through find_sources_in_image(mask=) (field-by-field identical components, same order), a whole-image region, and the aegean CLI --region.",
    note="Rotation-free WCS; cases depending on a pixel centre within 1e-6 px of a HEALPix boundary are skipped and counted.")
ENGINES[0]["serves_properties"] += ["C03"]
CLAIMED["C03"] = dict(engine="E1", category="exploration", design_ref="DESIGN.md section 3, C03",
    technique="bounded-exhaustive enumeration of all scene sequences over an island-archetype alphabet x all finder modes, row invariants + flood-fill island oracle, and run histories",
    text="ALL sequences of length 1..2 (quick) / 1..3 (thorough, all 729 3-sequences) over nine island archetypes (point, extended, 2/3-component blends, 1-pixel and few-pixel islands, negative, edge, NaN block) x {blind, blind+island, priorized stage 1-3 x regroup on/off}, plus blank / NaN images and 49- and 196-source grids (> 20 priorized groups): every row of every catalogue is checked (unique labels and uuids, numbering, shape/angle/coordinate ranges, flag bits, error values, sexagesimal strings, int_flux relation), island rows against an independent flood fill and WCS model, and run histories (fresh objects, same object, fresh processes with other hash seeds) must reproduce the catalogue.",
    note="Forced rms/background in the sequence sweep (files and internal estimates in the other clauses); rotation-free WCS apart from the listed header kinds.")
ENGINES[0]["serves_properties"] += ["C05", "C18"]
CLAIMED["C05"] = dict(engine="E1", category="exploration", design_ref="DESIGN.md section 3, C05",
    technique="bounded-exhaustive enumeration of a catalogue lattice (size ladder x sub-pixel phase x stage x regroup x ratio, all row permutations, bad rows at every position, psf-less catalogues) on an image rendered from the catalogue by an independent model",
    text="Eight source sizes giving odd and even cut-out widths x four sub-pixel phases x stages 1-3 x regroup on/off x ratio None/1; a 4-source catalogue (two isolated + a blend) under ALL 24 row permutations; off-image (four sides) and on-blank rows inserted at EVERY position; catalogues without psf columns; a 49-source catalogue: one component per accepted source with its uuid and the PRIORIZED flag, frozen parameters and their uncertainties returned as given, fluxes 0.1 %, positions 0.01 px, shapes 0.1 %, results independent of row order and of bad rows.",
    note="Noise-free images rendered by the independent sky-plane model; forced rms; rotation-free WCS.")
CLAIMED["C18"] = dict(engine="E1", category="exploration", design_ref="DESIGN.md section 3, C18",
    technique="bounded-exhaustive enumeration of all catalogue sequences over ten row archetypes x seven formats x prefix x metadata, identity oracle",
    text="ALL sequences of length 1..2 (quick) / 1..3 (thorough) over ten row archetypes (typical, negative, NaN fields, -1 errors, extreme magnitudes, short/long uuid, island, simple, blank) x {csv, tab, tex, vot, xml, fits, db} x prefix x metadata, plus 500/4000-row catalogues started at every archetype: files written by save_catalog are read back with load_table/table_to_source_list (sqlite3 for db) and compared row by row (strings and integers exact, floats to 1 ulp or float32, NaN and -1 preserved, per-type file split).",
    note="Trusts astropy table readers and sqlite3; metadata content itself is not compared.")
ENGINES[0]["serves_properties"] += ["C13", "C14", "C19"]
CLAIMED["C13"] = dict(engine="E1", category="exploration", design_ref="DESIGN.md section 3, C13",
    technique="bounded-exhaustive enumeration of all scene sequences over a signed source-archetype alphabet x noise x rms mode x all four polarity settings, metamorphic oracle (image negation) on exactly negatable images",
    text="ALL sequences of length 1..2 (quick) / 1..3 (thorough) over nine archetypes (positive/negative point and extended sources, same-sign and mixed blends, faint, tiny) x fixed dyadic noise realisations x {forced, file-supplied} rms/background x the four (nopositive, nonegative) settings, each run on I and on -I: catalogues must be mirror images (fluxes negated, everything else equal), polarity-filtered catalogues disjoint, correctly signed and jointly equal to the both-polarities catalogue; plus islands holding pixels of both signs at separations 3..6 px.",
    note="Fitted columns agree to 1e-6 relative or 1e-3 of their reported standard error (float32 bound transform inside lmfit breaks exact mirror symmetry at the 1e-7 level for ill-conditioned 7-pixel fits); images are exactly negatable (dyadic).")
CLAIMED["C14"] = dict(engine="E1", category="exploration", design_ref="DESIGN.md section 3, C14",
    technique="bounded-exhaustive enumeration of catalogue lattices (17 position classes incl. edges and off-image, sizes, angles, signs, projections, sky locations), all subsets/partitions for additivity, closed loop through the real finder, mask and column-renaming options, vs the independent sky-plane Gaussian renderer",
    text="Single sources over 17 position classes x size x PA x sign x projection x sky location x image shape; all 2- and 3-subsets of positions with all subsets, set partitions and orderings (additivity, off-image invariance); closed loop blind finder -> save_catalog -> make_residual; add-then-subtract; mask mode (frac and sigma, positive sources); all 64 subsets of renamable columns x csv/vot/tab. Model images are compared with the independent renderer to 1e-4 of the peak.",
    note="Mask mode for negative sources is not decided (ambiguous reading of 'exceeds its threshold'); rotation-free WCS.")
CLAIMED["C19"] = dict(engine="E1", category="exploration", design_ref="DESIGN.md section 3, C19",
    technique="bounded-exhaustive enumeration of ALL subsets of a 3x3 lattice (<= 5/6 points) x sky location x linking length x ALL row permutations x flux assignments vs union-find on longdouble great-circle separations",
    text="Every non-empty subset of up to 5 (thorough 6) points of a rotated 3x3 lattice with spacings 0.6/1.4 and 0.7 eps, at mid-latitude, across RA 0/360 and around both poles, eps 1', 4', 2 deg, distinct / equal / duplicated fluxes, under ALL row permutations: regroup_dbscan must give the eps-connected partition, order independent, numbered by decreasing flux, labels unique, other attributes unchanged; elliptical regroup: partition and permutation invariance; AeReg CLI end to end; resize: ratio None/1 identity, larger ratios never shrink, all permutations of all subsets of six archetype rows.",
    note="Pairs within 1e-3 relative of eps are excluded by construction (chord vs angle); catalogues of 7-500 rows are not covered.")
# ---- later refinements of the claims (keep the table truthful) ----
CLAIMED["C07"]["text"] = CLAIMED["C07"]["text"].replace("up to 3/4 (+5,5 and 6,6)", "up to 3 (quick) / 4 plus (5,5) (thorough)")
CLAIMED["C01"]["text"] += " B spans five beams incl. BPA 135 and 170; D: peaks exactly between pixels (no seed shift) at SNR 1e2..1e4 for beam-sized sources."
CLAIMED["C05"]["text"] += " Ten edge/corner placements (2-5 px from each image edge) x three sizes x stages."
CLAIMED["C08"]["text"] += " The canonical state key contains the model set, so a wrong implementation cannot hide behind de-duplication."
CLAIMED["C02"]["text"] += " Component-origin clause: a faint L-shaped group whose bounding box contains a bright source, 48 placements through the full finder."
CLAIMED["C07"]["text"] += " A counter abstraction of the protocol (validated on every run by state-set equality with the projected full model for S <= 3/4) is model checked for every S = C up to 16/32 with every single fault, so that swept layouts with more stripes are judged too; instances beyond that are reported as not covered."
# ---- refinements after seeded waves 4-7 (aliasing, carried state, CLI slices) ----
CLAIMED["C01"]["text"] += " C also runs an elongated family (3 x 1.5 beams at four orientations, 24/40 realisations); D also runs four elongated beams (minor axis 2.5-3 px along or near a pixel axis) with beam-oriented sources; E: sources near every image corner, non-square images, reference pixel far off the image, both signs."
CLAIMED["C02"]["technique"] = CLAIMED["C02"]["technique"].replace("on small grids", "on small grids x threshold pairs (incl. flood = seed)")
CLAIMED["C02"]["text"] += " A slice of the grids is enumerated again under flood = seed in {4, 4.5, 5, 6} and (4.5, 6), (5, 6) with letters exactly on those thresholds."
CLAIMED["C02"]["note"] = CLAIMED["C02"]["note"].replace("thresholds fixed at flood 4, seeds 5 and 7", "main sweep at flood 4, seeds 5 and 7; six further (flood, seed) pairs on the smaller grids")
CLAIMED["C03"]["text"] += " Wide fields (SIN/ZEA/TAN, 33 x 35 deg, sources up to 15.7 deg from the reference pixel, no psf map); the aegean command line (--table --island --negative, then --priorized on its own output) against the API."
CLAIMED["C04"]["text"] += " Pairs and n = 3, 4 sets that SHARE theta / theta + shape / everything but the centre (psf-shaped components) are included."
CLAIMED["C05"]["text"] += " With regrouping off the blend is also labelled as one island by the input and run under all row permutations against the truth; unusable rows inside a fitting group under all orders; five-source permutations (thorough)."
CLAIMED["C06"]["text"] += " Scale factors 2^-24 and 2^-34; an archetype with bright compact sources; the BANE command line (--grid --box --cores --stripes --compress --noclobber) against the API."
CLAIMED["C07"]["text"] += " Stripe-count clause also on non-square grid/box pairs over a ramp; the simulated pool enforces multiprocessing.Pool's state rules (join before close raises)."
CLAIMED["C08"]["technique"] = "explicit-state BFS over all operation histories (33-operation alphabet incl. union without renormalisation; depth 4 quick / 5 thorough from the empty state, one less from a populated once-queried state) of real Region objects with a HEALPix set model as oracle"
CLAIMED["C08"]["text"] = CLAIMED["C08"]["text"].replace("All histories over a 30-operation alphabet (", "All histories over a 33-operation alphabet (union(renorm=False) onto a coarser, equal and finer operand - single representation and area are not judged while normalisation is deferred - ")
CLAIMED["C08"]["text"] += " The same search is run from a populated state (six operations in, one register queried). MIMAS command line (+c -c +p -p -depth -o, 32 argument sets) against the set model."
CLAIMED["C10"]["text"] += " Blank pixels already present (different in every plane) must stay and not spread; double-precision images whose values do not fit single precision; regions around a single undefined coordinate (RA 0, Dec 0, poles, origin); MIMAS command line --maskimage / --maskcat / --negate."
CLAIMED["C11"]["text"] += " Histories: one mask FILE rewritten between runs of one process, every ordered pair of five regions in the order A, B, A, each run compared with the run handed the region as an object."
CLAIMED["C12"]["text"] += " The search also starts from a populated once-queried state and its alphabet holds union without renormalisation; fixed regions just south of the equator and across RA 0 for the DS9 sign/wrap handling; MIMAS --mim2fits / --mim2reg conversions."
CLAIMED["C13"]["text"] += " A broad 20 sigma source with a 4.0-4.8 sigma companion (between flood and seed clip); smoothly varying file-supplied noise map; two amplitude orderings of mixed-sign islands."
CLAIMED["C14"]["text"] += " Column renaming is also run in mask mode (sigma 4, sigma 12, frac 0.5); the AeRes command line (subtract, --add, --mask with --sigma / --frac, -m, renamed columns, three table formats) against the API and the renderer."
CLAIMED["C15"]["text"] += " Histories: per factor every ordered pair (A, B) of 24 shapes is expanded in the order A, B, A in one process (file and HDU list); rotated CD matrices."
CLAIMED["C16"]["text"] += " Both directions are closed (pixel -> sky -> pixel and sky -> pixel -> sky, axis ratio exactly 1 included). Histories: five helpers of different images alive at once, every ordered pair asked in the order A, B, A with bit-identical arguments."
CLAIMED["C18"]["text"] = CLAIMED["C18"]["text"].replace("floats to 1 ulp or float32", "floats bit-identical, or float32 for FITS")
CLAIMED["C19"]["text"] += " Decisive links within 1e-5 / 1e-4 of the linking length on both sides; the priorized fitter's own use of the linking length (explicit 1', 4' and the default 4 x mean major axis) on the lattice."
CLAIMED["C20"]["text"] += " Histories: one path rewritten with another image (2-D, cube, compressed; other size) between loads of one process, every ordered pair of six images in the order A, B, A."
# ---- refinements after wave 8 ----
CLAIMED["C01"]["text"] += " F: the forced / internal combinations of noise and background on a noise-free image with a +2.5 / -3 sigma pedestal (the background column is compared too)."
CLAIMED["C02"]["text"] += " A fourth realisation puts the blank into the background map at a finite image pixel."
CLAIMED["C03"]["text"] += " Rejects: every component of the blind catalogue in turn is put on blank pixels and the priorized modes are run on that image (numbering, labels, flags)."
CLAIMED["C04"]["text"] += " The covariance model itself: Cmatrix against the documented Gaussian correlation function for 3 shapes x 6 angles x 3 pixel sets, Bmatrix against B B' = inv(C)."
CLAIMED["C05"]["text"] += " ratio = 1 with catalogue psf columns smaller / larger than the image psf must be the identity."
CLAIMED["C06"]["text"] += " BSCALE inputs are also run with plain and compressed output files; returned maps and file contents are compared with the plain run."
CLAIMED["C08"]["technique"] = CLAIMED["C08"]["technique"].replace("33-operation alphabet", "35-operation alphabet")
CLAIMED["C08"]["text"] = CLAIMED["C08"]["text"].replace("33-operation alphabet", "35-operation alphabet") + " `save` writes the file (its content is compared with the model) and the history continues with the ORIGINAL object; `saveload` continues with the loaded one."
CLAIMED["C09"]["text"] += " Small polygons (circumradius 0.05-0.2 deg) at depths 10-12."
CLAIMED["C10"]["text"] += " Tables with distractor columns (the same names in another case, suffixed names) holding positions of the opposite membership."
CLAIMED["C11"]["text"] += " Wide fields (15 x 30 deg; SIN/ZEA/ARC/TAN with the reference pixel on, near and far off the image; CAR/SFL/MER 40-55 deg from the reference latitude): islands 3 and 7 px from every edge, a region covering the whole image must change nothing (depths 6, 9; 5..10 thorough)."
CLAIMED["C12"]["text"] += " Reload histories: load, change, load, change, load for every ordered pair of six operations - every load must reproduce what was saved and hand out an independent object."
CLAIMED["C13"]["text"] += " Backgrounds of one sign (a constant pedestal given as a number, an everywhere-positive file), whose negated twins have no positive pixel."
CLAIMED["C14"]["text"] += " Wide fields (17 x 22 deg, reference pixel in a corner / centred / far off): catalogues of sources with bit-identical (a, b, pa) must be additive over single-source models and independent of the row order."
CLAIMED["C16"]["text"] += " Argument types: the same numbers as floats, Python ints, lists, int32 / int64 / float64 arrays give the same answers and the caller's arrays are not changed."
CLAIMED["C17"]["text"] += " Every function with float ndarray arguments in every argument position (15 patterns): equal to the scalar calls, inputs untouched, repeatable."
CLAIMED["C18"]["text"] += " Overwrite histories: every ordered pair of five catalogues of different source types written to the same name, in every format."
# ---- refinements after wave 9 ----
CLAIMED["C01"]["text"] += " G: elongated sources (axis ratio 2-3) within a few degrees of a pixel axis at SNR 12-45, noise-free, with and without covariance weighting."
CLAIMED["C02"]["text"] += " The caller's image / background / noise arrays must be unchanged after every call."
CLAIMED["C03"]["text"] += " Noise and background supplied as files that are blank along a diagonal edge 3-5 px from the sources (island bounding boxes contain blank noise pixels)."
CLAIMED["C04"]["text"] += " Weighting variants none / errs / B / errs+B / C / errs+C; the B, C and data arguments of covar_errors are compared before and after the call."
CLAIMED["C05"]["text"] += " Position angles quoted in other conventions (120, 215, -135, 270, 360, -180 deg) give the same answers."
CLAIMED["C06"]["text"] += " Histories: one input path rewritten with another image (plain, BSCALE float, BSCALE int16, other shape, cube), every ordered pair A, B, A, each run compared with the same image under a fresh name."
CLAIMED["C08"]["text"] += " In every state each register is also asked, in ONE call, for positions of which several share a pixel."
CLAIMED["C10"]["text"] += " Duplicate rows (x2, x3), a region in several far-apart parts, a region depth at which ~20 image pixels share a cell, headers with negative CRVAL1."
CLAIMED["C11"]["text"] += " A header with negative CRVAL1 in every clause."
CLAIMED["C12"]["text"] += " Regions holding 1250 / 2100 pixels in ONE level are exported to DS9 (block-wise writers)."
CLAIMED["C15"]["text"] += " The compressed background / noise files that BANE itself writes (3 shapes x 2 grids x 3 header kinds) must expand to the image's shape and WCS keywords and be accepted by Aegean."
# ---- refinements after wave 10 ----
CLAIMED["C01"]["text"] += " F also with the image stored under a BSCALE keyword (float pixels in other units, 16-bit integers)."
CLAIMED["C02"]["text"] += " With a region and WCS every returned island must be one of the unrestricted islands, pixel set and bounding box unchanged (all images on 2x4 / 1x5 grids, two regions)."
CLAIMED["C03"]["text"] += " Threshold pairs (3,4) (5,5) (6,3) (4,10) (8,4) - incl. a flood clip above the seed clip - together with island rows."
CLAIMED["C05"]["text"] += " An explicit linking length (1, 2 arcmin) larger than the blend's separation keeps the blend in one fitting group."
CLAIMED["C09"]["text"] += " Right ascensions on another branch (ra - 360, + 360, - 720; polygons written as 359, 361 or -1, 1) and whole-number radian coordinates handed over as Python ints / integer arrays give the same regions and answers."
CLAIMED["C10"]["text"] += " Undefined coordinates as MASKED cells (value under the mask 0), also after a round trip through csv."
CLAIMED["C11"]["text"] += " Command line: --autoload with a sibling <image>.mim, alone and together with --region in both orders."
CLAIMED["C13"]["text"] += " Island rows (doislandflux) of image and negated image: every column mirrored."
CLAIMED["C14"]["text"] += " A TAN-SIP header (three distortion strengths): the centroid of every single-source model against astropy's distortion-aware transform (0.02 px)."
CLAIMED["C15"]["text"] += " Headers carrying CDELT beside a CD matrix."
CLAIMED["C16"]["text"] += " Slant-orthographic SIN headers (PV2_1, PV2_2 incl. the NCP form) against the forward formula of FITS Paper II eq. 43/44; TAN-SIP headers through the inverse clause at 1e-3 px (astropy inverts the distortion iteratively to 1e-4 px)."
CLAIMED["C17"]["text"] += " Every spelling (sign, explicit plus, colon / blank / tab separators, optional seconds field) of every whole-arcminute angle of six degrees parses to the exact value."
CLAIMED["C19"]["text"] += " AeReg --eps together with --ratio 1.5 / 3: the grouping still follows --eps."
# ---- refinements after wave 11 ----
CLAIMED["C01"]["text"] += " H: images whose reference point is a celestial pole (SIN/ZEA/TAN, both poles); I: exactly circular beams x 5 projections x BPA 0/45/90."
CLAIMED["C02"]["text"] += " Double-precision values 3e-8 (relative) either side of the thresholds."
CLAIMED["C03"]["text"] += " Pole-centred scenes; priorized stages 1-2 on exactly circular input components whose meridian runs along a pixel axis (SIN central meridian, CAR)."
CLAIMED["C04"]["text"] += " Amplitudes 1e-9 .. 3e5 (badly scaled Fisher matrices are inverted after normalising the diagonal; only matrices ill-conditioned after that are left undecided)."
CLAIMED["C05"]["text"] += " One row without psf columns in a catalogue made at another resolution, under all permutations."
CLAIMED["C07"]["text"] += " Blank bands of rows covering whole stripes, with and without masking: finite/blank pattern and values independent of the stripe count."
CLAIMED["C08"]["technique"] = CLAIMED["C08"]["technique"].replace("35-operation alphabet", "37-operation alphabet")
CLAIMED["C08"]["text"] = CLAIMED["C08"]["text"].replace("35-operation alphabet", "37-operation alphabet") + " Pixels at the coarsest level (1) are added to two registers."
CLAIMED["C09"]["text"] += " Positions exactly at a pole (scalar/vector, radians/degrees, any RA) against regions that cover / do not cover the pole."
CLAIMED["C10"]["text"] += " Table rows exactly at a pole with a polar-cap region; images whose reference pixel is a pole and lies in the region."
CLAIMED["C11"]["text"] += " A one-cell region (depth 12, 14) under an interior, edge or corner pixel of a 3x3 / 7x7 island."
CLAIMED["C13"]["text"] += " A bright source with one opposite-sign pixel next to its peak (12 variants)."
CLAIMED["C14"]["text"] += " Mask mode frac = 0."
CLAIMED["C16"]["text"] += " Axis ratio 0.997 (nearly circular)."
CLAIMED["C17"]["text"] += " Translations that start AT a pole and translations whose destination IS a pole; the reference destination is computed in vector form."
CLAIMED["C19"]["text"] += " Elliptical variant: every group chain-connected under the distance it was built with (independent separations for sky_dist), also with one zero-size source."
# ---- refinements after wave 12 ----
CLAIMED["C07"]["text"] += " Timers: a finite timeout on a synchronisation wait is an environment event - every armed timed wait is made to expire once before its condition holds (deviation bound 1) and the call must still return the same maps."
CLAIMED["C10"]["text"] += " History: one Region object masks a table, is extended (union, union without renormalisation, add_circles) and masks the table again."
CLAIMED["C13"]["text"] += " Sources of both signs peaking on the first / last row or column of the image."
CLAIMED["C14"]["text"] += " Sources centred less than half a pixel beyond each image edge (four more position classes, 21 in all)."
CLAIMED["C03"]["text"] += " The circular-input clause also with ratio 0.9 / 1.3."
CLAIMED["C16"]["text"] += " Thorough tier: reference points at both exact celestial poles (the standard's LONPOLE default, 0 at CRVAL2=+90), the origin, dec 89 and the RA wrap; position angles are not judged at a pixel that is itself a pole."
CLAIMED["C17"]["text"] += " Thorough tier: 80-point alphabet (poles approached at 1e-2..1e-8 deg, the RA wrap and the equator from both sides, a second lattice), all 6400 ordered pairs and 512000 triangles, translations by 9 radii x 72 bearings from every point."
CLAIMED["C02"]["text"] += " Realisation 5: a uniform non-zero background under which island members above the flood clip are stored as exactly 0.0 next to non-zero members (membership and bounding box never depend on the stored value)."
