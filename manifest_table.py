ENGINES = [
 dict(name="E1", path="mc/core.py", serves_properties=["C17"], kind_free_text="bounded-exhaustive enumeration of input/configuration lattices on the real code against independent reference models"),
]
NOTES = "All checks run /repo's working tree through the editable install in /venv; see DESIGN.md."
NOT_YET = {}
CLAIMED["C17"] = dict(engine="E1", category="exploration", design_ref="DESIGN.md section 3, C17",
    technique="bounded-exhaustive enumeration (all pairs/triples of an adversarial point set, every minute boundary) vs extended-precision vector reference and exact rational arithmetic",
    text="Every ordered pair and triple of a 40-point adversarial set (poles, RA wrap, separations 1e-9..180-1e-9 deg) and every minute boundary of the sexagesimal formats are executed on the real functions and compared with an independent longdouble vector model / exact Fractions; exhaustive within that lattice, no claim between lattice points.",
    note="Trusts numpy longdouble trigonometry and Python Fractions as reference; bearing tolerance follows the conditioning of the standard formula.")
ENGINES[0]["serves_properties"] += ["C15", "C20"]
CLAIMED["C20"] = dict(engine="E1", category="exploration", design_ref="DESIGN.md section 3, C20",
    technique="bounded-exhaustive enumeration of every (rows, band count, band) triple on the real loader vs integer tiling and an independent zenithal WCS model",
    text="Every (rows, n, i) with rows 1..120 (quick) / 1..400 plus six large sizes (thorough), n 1..64 and every band i is loaded with the real load_image_band from real FITS files; ranges must tile, values must equal the full image rows and the band header must map pixels to the same sky position under an independent WCS model; all input kinds on a 40-value slice; exhaustive within those bounds.",
    note="Trusts astropy.io.fits to write/read the test files and the 40-line zenithal WCS reference; rotation-free headers only.")
CLAIMED["C15"] = dict(engine="E1", category="exploration", design_ref="DESIGN.md section 3, C15",
    technique="bounded-exhaustive enumeration of all small image shapes x factors x header/input/image kinds on the real compress/expand",
    text="All shapes in [2..10]^2 (quick) / [2..20]^2 plus extras (thorough) x factors up to 64 x {CDELT,CD} x {file,HDUList} x three image kinds are compressed and expanded by the real code; shape, WCS keywords, BN_* removal, node exactness, range and complete-cell exactness are checked on every case; SR6 CLI and Aegean's aux loader on a slice.",
    note="Trusts astropy.io.fits; node-linear test images are dyadic so float32 storage is exact.")
ENGINES[0]["serves_properties"] += ["C02", "C16"]
CLAIMED["C16"] = dict(engine="E1", category="exploration", design_ref="DESIGN.md section 3, C16",
    technique="bounded-exhaustive enumeration of a projection x reference point x scale x pixel x ellipse lattice vs an independent FITS Paper II zenithal model and longdouble spherical geometry",
    text="Full product of 5 projections x 5 reference points (high |dec|, RA wrap) x 3-5 pixel scales x 5 pixel positions x ellipse size/ratio/angle lattices is run through the real WCSHelper; positions are compared with an independent implementation of the FITS standard in (row, column) 1-based order, vectors/ellipses with great-circle lengths and bearings East of North, and all round trips are closed at the property's tolerances.",
    note="Rotation-free square pixels, |dec| <= 85; trusts the 80-line zenithal reference (self-checked by its own inverse on every case) and longdouble trigonometry.")
CLAIMED["C02"] = dict(engine="E1", category="exploration", design_ref="DESIGN.md section 3, C02",
    technique="exhaustive enumeration of ALL images over a signal-to-noise alphabet on small grids vs a breadth-first flood-fill reference",
    text="Every image over alphabets of 2-10 signal-to-noise letters (incl. NaN, negative, exact-threshold ties) on every grid up to 3x3 / 2x3 (quick) and 3x4 / 4x4 / 3x5 (thorough), each through three (image, background, noise) realisations and two seeds, is passed to the real find_islands and compared as a set of (pixel set, bounding box) with an independent BFS; disjointness, blank-free membership and seed monotonicity are checked directly.",
    note="Grid sizes are bounded (<= 15 pixels); thresholds fixed at flood 4, seeds 5 and 7; the component-origin clause is covered on scenes in C03/C11.")
ENGINES[0]["serves_properties"] += ["C04"]
CLAIMED["C04"] = dict(engine="E1", category="exploration", design_ref="DESIGN.md section 3, C04",
    technique="bounded-exhaustive enumeration of every free-parameter subset x parameter lattice vs complex-step derivatives of an independent model and the inverse Fisher matrix",
    text="For every lattice component (60) every one of the 63 free-parameter subsets, for 6-12 two-component models every one of the 4095 subset pairs, and for 3-4 components the 4^n structured subsets, the real jacobian / lmfit_jacobian / covar_errors are executed on full, NaN-masked and single-row pixel sets with and without errs / B / C weighting and compared with complex-step derivatives (exact to rounding) and sqrt(diag(inv(Fisher))) at the parameter's own global index.",
    note="Trusts numpy linear algebra and the 20-line reference model; the error clause is skipped for ill-conditioned Fisher matrices (cond > 1e10).")
ENGINES.append(dict(name="E2", path="mc/histories.py", serves_properties=["C08", "C12"], kind_free_text="explicit-state breadth-first search over operation histories; each transition executes the real method on a copy of the real objects and the same operation on a reference set model; states de-duplicated on the full internal representation; invariants evaluated in every state"))
CLAIMED["C08"] = dict(engine="E2", category="model_checking", design_ref="DESIGN.md section 3, C08",
    technique="explicit-state BFS over all operation histories (30-operation alphabet, depth 3 quick / 5 thorough) of real Region objects with a HEALPix set model as oracle",
    text="All histories over a 30-operation alphabet (add circles/polygons/pixels at equal and lower depth, union with equal/finer/coarser regions, difference, intersection, symmetric difference, the three queries, save+load) on four registers of depth 2/3/3/5 are explored breadth-first on the real objects; in every distinct implementation state membership at every deepest-level pixel centre and at off-centre points, the deepest-level set, the area, single representation and integral ids are compared with the set model. combine_regions: all 96 container-field subsets.",
    note="healpy is the trusted geometry kernel; depth bound as stated; states violating an invariant are reported and not expanded.")
CLAIMED["C12"] = dict(engine="E2", category="model_checking", design_ref="DESIGN.md section 3, C12",
    technique="exports taken in every distinct region state reached by the E2 history search plus bounded-exhaustive fixed regions x maxdepth 1..12, decoded by an independent NUNIQ / DS9 / pickle reader",
    text="Every distinct internal representation of every register reached by the history search (depth 2 quick / 3 thorough), i.e. before and after demoting queries, is written as MOC FITS, DS9 and .mim and decoded independently (NUNIQ -> order, ipix -> deepest level; polygon vertices vs healpy pixel corners; load equality and fixpoint); plus {empty, single, circle, whole sky} x maxdepth 1..12 x {fresh, after query}.",
    note="healpy.boundaries is the trusted pixel outline; DS9 vertices compared at the printed precision.")
ENGINES[0]["serves_properties"] += ["C09", "C10"]
CLAIMED["C09"] = dict(engine="E1", category="exploration", design_ref="DESIGN.md section 3, C09",
    technique="bounded-exhaustive enumeration of centre x radius x depth (circles) and centre x n-gon x size x depth x winding (polygons), queried at every pixel centre of the sphere and on boundary rings, vs longdouble great-circle distances",
    text="Every combination of 7 centres (both poles, RA wrap), 4 radii and depths 3..12 (circles) and 6 vertex counts x 3 sizes x depths x 2 windings (polygons) is built with the real Region and queried at EVERY pixel centre of the whole sphere one level finer plus rings just inside the shape and just beyond radius + 3 pixels, through scalar/list/array and degree/radian interfaces; membership and cap areas are decided against an independent vector distance.",
    note="Radius capped at depth >= 9 to keep regions <= 2e5 pixels; healpy is NOT the oracle here (distance is), so Aegean's use of healpy is what is checked.")
CLAIMED["C10"] = dict(engine="E1", category="exploration", design_ref="DESIGN.md section 3, C10",
    technique="bounded-exhaustive enumeration of image shape x WCS x region x depth x negate x dimensionality and of all 2^5 table row subsets vs an independent pixel-centre WCS model and HEALPix membership",
    text="Full product of 3 shapes x 3 projections x {centred, off-image CRPIX} x 2 scales x 3 region kinds x 2 depths x negate x {mask_plane, mask_file 2-D/3-D/4-D}: the blanked set must equal the set of pixels whose centre (independent zenithal WCS model) falls outside the region's own pixel set, complements under negate, other values bit-identical, all planes equal; tables: all 32 subsets of five archetype rows incl. empty and NaN coordinates through mask_table and mask_catalog (csv, fits), custom column names.",
    note="Rotation-free headers; pixels whose centre is within 1e-6 pixel of a HEALPix boundary are excluded (count reported, 0 on the current lattice).")
