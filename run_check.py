#!/venv/bin/python
"""
./run_check.py C17 [--tier quick|thorough] [--seed N] [--replay file] [--shards N]

exit 0: the property held on everything explored (KNOWN-FINDING lines allowed)
exit 1: at least one line "VIOLATION property=<id> replay=<path>" was printed
exit 2: harness error (never a verdict)
"""
import argparse
import importlib
import json
import os
import shutil
import subprocess
import sys
import tempfile
import time

HERE = os.path.dirname(os.path.abspath(__file__))
sys.path.insert(0, HERE)
os.environ.setdefault("OMP_NUM_THREADS", "1")
os.environ.setdefault("OPENBLAS_NUM_THREADS", "1")
os.environ.setdefault("MKL_NUM_THREADS", "1")
os.environ.setdefault("PYTHONHASHSEED", "0")
os.environ.setdefault("AEGEAN_VERIF", "1")
os.environ.setdefault("TQDM_DISABLE", "1")
os.environ.setdefault("PYTHONWARNINGS", "ignore")
import warnings  # noqa: E402
warnings.simplefilter("ignore")     # this process too (self-driving checks import AegeanTools here)
os.environ["PYTHONPATH"] = HERE + os.pathsep + os.environ.get("PYTHONPATH", "")

from mc import core  # noqa: E402


def scratch_dir():
    base = "/dev/shm" if os.path.isdir("/dev/shm") and os.access("/dev/shm", os.W_OK) else os.path.join(HERE, ".scratch")
    os.makedirs(base, exist_ok=True)
    return tempfile.mkdtemp(prefix="aegean_verif_", dir=base)


def validate_evidence(path):
    schema = "/root/.vp/EVIDENCE.schema.json"
    vt = shutil.which("python3-vt")
    if not (vt and os.path.exists(schema)):
        return
    code = ("import json,jsonschema,sys;"
            "jsonschema.validate(json.load(open(sys.argv[1])), json.load(open(sys.argv[2])))")
    r = subprocess.run([vt, "-c", code, path, schema], capture_output=True, text=True)
    if r.returncode != 0:
        sys.stderr.write("EVIDENCE-INVALID %s\n%s\n" % (path, r.stderr[-1500:]))
        sys.exit(2)


def main():
    ap = argparse.ArgumentParser()
    ap.add_argument("prop")
    ap.add_argument("--tier", default=os.environ.get("VERIF_TIER", "quick"), choices=["quick", "thorough"])
    ap.add_argument("--seed", type=int, default=int(os.environ.get("VERIF_SEED", "0") or 0))
    ap.add_argument("--replay")
    ap.add_argument("--shards", type=int)
    ap.add_argument("--shard")  # internal: i/n
    ap.add_argument("--partial")  # internal: output file of a shard
    a = ap.parse_args()

    import AegeanTools
    if not os.path.abspath(AegeanTools.__file__).startswith("/repo/"):
        sys.stderr.write("AegeanTools is not imported from /repo: %s\n" % AegeanTools.__file__)
        sys.exit(2)

    mod = importlib.import_module("checks." + a.prop.lower())
    level = getattr(mod, "LEVEL", "exploration")
    t0 = time.time()

    if a.replay:
        with open(a.replay) as f:
            r = json.load(f)
        ctx = core.Ctx(a.prop, a.tier, a.seed, level=level)
        ctx._cur = (r["clause"], r["case"])
        os.environ["VERIF_SCRATCH"] = scratch_dir()
        try:
            mod.evaluate(r["clause"], r["case"], ctx)
        finally:
            shutil.rmtree(os.environ["VERIF_SCRATCH"], ignore_errors=True)
        for v in ctx.violations:
            print("REPLAY-VIOLATION property=%s clause=%s %s" % (a.prop, v["clause"], v["what"]))
        print("replay: %d violation(s)" % ctx.viol_count)
        sys.exit(1 if ctx.viol_count else 0)

    if a.shard:
        i, n = [int(x) for x in a.shard.split("/")]
        ctx = core.Ctx(a.prop, a.tier, a.seed, (i, n), level)
        os.environ["VERIF_SCRATCH"] = os.environ.get("VERIF_SCRATCH") or scratch_dir()
        try:
            core.run_shard(mod, ctx)
        finally:
            if not os.environ.get("VERIF_KEEP_SCRATCH"):
                shutil.rmtree(os.environ["VERIF_SCRATCH"], ignore_errors=True)
        with open(a.partial, "w") as f:
            f.write(core.jdump(ctx.dump()))
        sys.exit(0)

    # a check may run itself completely (E2/E3/E4 engines)
    if hasattr(mod, "main"):
        sc = scratch_dir()
        os.environ["VERIF_SCRATCH"] = sc
        try:
            rc = mod.main(a.tier, a.seed, t0)
        finally:
            shutil.rmtree(sc, ignore_errors=True)
        validate_evidence(os.path.join(core.EVIDENCE_DIR, a.prop + ".json"))
        sys.exit(rc)

    nsh = a.shards or getattr(mod, "SHARDS", 16)
    if callable(nsh):
        nsh = nsh(a.tier)
    nsh = max(1, min(nsh, os.cpu_count() or 1, 16))
    ctx = core.Ctx(a.prop, a.tier, a.seed, level=level)
    tmp = scratch_dir()
    try:
        if nsh == 1:
            os.environ["VERIF_SCRATCH"] = tmp
            sub = core.Ctx(a.prop, a.tier, a.seed, (0, 1), level)
            core.run_shard(mod, sub)
            ctx.merge(json.loads(core.jdump(sub.dump())))
        else:
            procs = []
            for i in range(nsh):
                part = os.path.join(tmp, "part%d.json" % i)
                sd = os.path.join(tmp, "s%d" % i)
                os.makedirs(sd)
                env = dict(os.environ, VERIF_SCRATCH=sd)
                p = subprocess.Popen([sys.executable, os.path.abspath(__file__), a.prop, "--tier", a.tier,
                                      "--seed", str(a.seed), "--shard", "%d/%d" % (i, nsh), "--partial", part],
                                     env=env)
                procs.append((p, part))
            for p, part in procs:
                rc = p.wait()
                if rc != 0 or not os.path.exists(part):
                    ctx.harness_errors.append(dict(clause="shard", case=part, tb="shard exited %r" % rc))
                    continue
                with open(part) as f:
                    ctx.merge(json.load(f))
        if hasattr(mod, "finalize"):
            os.environ["VERIF_SCRATCH"] = tmp
            mod.finalize(ctx)
    finally:
        shutil.rmtree(tmp, ignore_errors=True)
    rc = core.finish(mod, ctx, t0)
    validate_evidence(os.path.join(core.EVIDENCE_DIR, a.prop + ".json"))
    sys.exit(rc)


if __name__ == "__main__":
    main()
