#!/usr/bin/env python3
"""
Write the prompt for a seeding sub-agent:   tools_seed_prompt.py <sid> <property id> [--focus "..."]  ->  /tmp/seed/prompt_<sid>.txt

The agent gets ONLY the text of the property (from properties.jsonl), its own scratch worktree /tmp/wt_<sid> (create it with
`git -C /repo worktree add /tmp/wt_<sid> HEAD`), and one-paragraph descriptions of the changes other agents already produced
for that property (so that it looks elsewhere).  Nothing from /verif's checks, oracles or design is given.
"""
import argparse
import glob
import json
import os

VERIF = os.path.dirname(os.path.abspath(__file__))

TEMPLATE = """You are helping to evaluate a verification effort for the Python package AegeanTools (radio-astronomy source finder; repository PaulHancock/Aegean). You get a private git worktree of the repository at /tmp/wt_{sid} (interpreter: /venv/bin/python; run things with that directory as the current directory so that `import AegeanTools` resolves to YOUR worktree - verify with `python -c "import AegeanTools; print(AegeanTools.__file__)"`). Work ONLY inside /tmp/wt_{sid} and /tmp/seed/{sid}/ ; never touch /repo or /verif.

The property below is supposed to hold for this code base (it currently does, as far as we know):

----- PROPERTY {pid}: {title} -----
{statement}

Quantified over: {quant}

Code anchors (what in the code is meant to make it hold): files {files}; mechanisms {mech}
-----

YOUR TASK: make ONE realistic change to the source code under /tmp/wt_{sid}/AegeanTools (the kind of slip a maintainer could plausibly introduce during a refactor, optimisation or feature addition - a few lines) that BREAKS this property while (a) the package still imports and (b) the repository's own test suite still passes. The change must NOT be exposed by ordinary use at once: it should need something specific to manifest - a particular input, configuration, option, sequence of calls, schedule or history. Do not add dead giveaways (no comments saying it is a bug), do not edit tests, and do not make changes that merely crash on import or on every call.
{focus}
Deliverables, all under /tmp/seed/{sid}/ :
 1. patch.diff  - `git -C /tmp/wt_{sid} diff` of your change (source files only; must apply with `git apply` on the unmodified commit).
 2. demo.py     - a small self-contained program (python, using only what /venv provides; temporary files under /dev/shm or /tmp/seed/{sid}) that exits 0 on the UNMODIFIED code and exits non-zero (printing what went wrong) on the modified code, demonstrating that the property is broken. Run it yourself both ways: with your change applied, and on the unmodified code - for the latter use a copy made with `git -C /tmp/wt_{sid} archive HEAD AegeanTools | tar -x -C /dev/shm/{sid}_orig` and run the demo with that directory as cwd; NEVER use `git stash` (the stash is shared between all worktrees of the repository and other people are working in parallel). It must run with cwd=/tmp/wt_{sid} as `/venv/bin/python /tmp/seed/{sid}/demo.py` in under two minutes.
 3. notes.txt   - 5-10 lines: what you changed and why it is plausible, which clause of the property it breaks, what exactly is needed for it to manifest (the specific input / configuration / schedule / sequence), and the tail of the test-suite output with your change applied.
Test suite command (takes 30 s - 8 min depending on machine load; run it with your change applied and make sure it reports no failures; redirect the output to a file instead of piping it):
   cd /tmp/wt_{sid} && /venv/bin/python -m pytest -q -p no:cacheprovider --timeout=900 -x > /tmp/seed/{sid}/pytest.log 2>&1; tail -5 /tmp/seed/{sid}/pytest.log
(afterwards run `git -C /tmp/wt_{sid} checkout -- tests; rm -f /tmp/wt_{sid}/circle.mim` because the suite rewrites two test files; make sure patch.diff does not contain them.)
If your first idea is caught by the existing tests, pick another. Leave your change applied in the worktree when you finish. In your final message, summarise the change in 3 lines.

IMPORTANT - other people have already produced the following changes for this property; yours must be of a DIFFERENT kind (different function or different clause of the property, different trigger) from ALL of them:
{others}

Also: when you run demo.py as a script, sys.path[0] is the script's directory, not the current directory - make demo.py insert os.getcwd() at the front of sys.path before importing AegeanTools and print AegeanTools.__file__; set os.environ['TQDM_DISABLE']='1' and os.environ['OMP_NUM_THREADS']='1'. Prefer a change whose effect is SUBTLE (small numerical error, rare configuration, specific sequence, one clause of the property only) over one that crashes.
"""


def main():
    ap = argparse.ArgumentParser()
    ap.add_argument("sid")
    ap.add_argument("pid")
    ap.add_argument("--focus", default="")
    a = ap.parse_args()
    prop = [json.loads(l) for l in open(os.path.join(VERIF, "properties.jsonl")) if json.loads(l)["id"] == a.pid][0]
    others = []
    for m in sorted(glob.glob(os.path.join(VERIF, "seeded", a.pid + "*", "meta.json"))):
        meta = json.load(open(m))
        note = " ".join((meta.get("author_notes") or "").split())[:330]
        others.append(" - %s: %s" % (meta["id"], note))
    focus = ("\nFOCUS for this round (others have covered the obvious places): %s\n" % a.focus) if a.focus else ""
    txt = TEMPLATE.format(sid=a.sid, pid=a.pid, title=prop["title"], statement=prop["statement"], quant=prop["quantifier"]["text"],
                          files=prop["anchors"].get("files"), mech=json.dumps(prop["anchors"].get("mechanism") or prop["anchors"].get("state")),
                          focus=focus, others="\n".join(others) or " (none yet)")
    os.makedirs("/tmp/seed/%s" % a.sid, exist_ok=True)
    out = "/tmp/seed/prompt_%s.txt" % a.sid
    open(out, "w").write(txt)
    print(out, len(txt))


if __name__ == "__main__":
    main()
